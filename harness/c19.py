"""C19 — boundary-condition objects interpolate their data faithfully and validate shapes.

Lean: SrModel/Interp.lean (model), SrProofs/Interp.lean, SrProps/C19.lean (theorems).
Tie:  correspondence on real BC objects of every kind.  The model is evaluated on `Rat` by the Lean
      driver: every float the implementation sees (times, the theta/z grids numpy builds, data, query
      points, 2*pi) is sent as its exact rational (`float.as_integer_ratio`), so the model value is the
      exact real-arithmetic value of the interpolant on the implementation's inputs.
      * dyadic stream: data / times / heights with few mantissa bits, t and z queries at dyadic cell
        fractions, so scipy's arithmetic is exact; whenever the theta weight is 0 or 1 as well (query
        angle is a grid angle, or the kind has no angle) the comparison is EXACT (bit pattern);
      * otherwise (general theta, general data) the tolerance is |a-b| <= 1e-12 * max(1, max|data|).
      Shapes of results, the scalar/array dispatch, constructor outcomes on a malformed stream of
      shapes and `Tube.set_bc` outcomes are compared exactly.
Search: the property itself evaluated on the same real objects, independently of the model.
"""
import os
import sys
from fractions import Fraction

sys.path.insert(0, os.path.dirname(os.path.abspath(__file__)))
import common
import numpy as np

TWO_PI = 2.0 * np.pi
SURFACE = ("HeatFlux", "FixedTemp")
KINDS = ("HeatFlux", "FixedTemp", "Convective", "Film", "Pressure")
OWN_MESSAGES = ("Heat flux shape must equal", "Discrete temperature shape must equal",
                "Fluid temperature data shape must equal",
                "Film coefficient and fluid temperature data must have size",
                "Times and data should have the same shape")


# --------------------------------------------------------------------------------------
# generation
# --------------------------------------------------------------------------------------
def gen_spec(rng, kind, dyadic):
    """a JSON-able description of one BC object"""
    nt = rng.randint(1, 6)
    nz = rng.randint(2, 5)
    ntime = rng.randint(2, 4)
    if dyadic:
        dz = rng.choice([0.25, 0.5, 1.0, 2.0])
        h = (nz - 1) * dz
        r = rng.randint(1, 32) / 8.0
        t0 = rng.randint(-8, 8) / 4.0
        times = [t0]
        for _ in range(ntime - 1):
            times.append(times[-1] + rng.choice([0.25, 0.5, 1.0, 2.0, 4.0]))
        val = lambda: rng.randint(-800, 800) / 8.0
    else:
        h = rng.uniform(0.5, 20.0)
        r = rng.uniform(0.1, 5.0)
        times = sorted(rng.uniform(-3.0, 50.0) for _ in range(ntime))
        while len(set(times)) < ntime:
            times = sorted(rng.uniform(-3.0, 50.0) for _ in range(ntime))
        val = lambda: rng.uniform(-500.0, 900.0)
    u = rng.random()
    if u < 0.25:
        # a long history with one very short interval at its end (u < 0.125) or at its start: about a day and a half
        # in seconds, held and then blown down in half a second.  The samples next to the end points are data like any
        # other.  (All intervals are powers of two, so that the dyadic cases stay exact in floating point.)
        base, short = 131072.0, rng.choice([0.5, 0.25, 0.125])
        if u < 0.125:
            times = [base - short - 32768.0 - 16384.0, base - short - 32768.0, base - short, base][-ntime:]
        else:
            times = [base, base + short, base + short + 16384.0, base + short + 16384.0 + 32768.0][:ntime]
    spec = dict(kind=kind, r=r, h=h, nt=nt, nz=nz, times=times, dyadic=dyadic)
    if kind in SURFACE:
        spec["data"] = [[[val() for _ in range(nz)] for _ in range(nt)] for _ in range(ntime)]
    elif kind == "Convective":
        spec["data"] = [[val() for _ in range(nz)] for _ in range(ntime)]
    elif kind == "Film":
        spec["fluid_T"] = [val() for _ in range(nz)]
        spec["film"] = [val() for _ in range(nz)]
    else:
        spec["data"] = [val() for _ in range(ntime)]
    return spec


def build(spec):
    from srlife import receiver
    k = spec["kind"]
    times = np.array(spec["times"], dtype=float)
    if k == "HeatFlux":
        return receiver.HeatFluxBC(spec["r"], spec["h"], spec["nt"], spec["nz"], times, np.array(spec["data"], dtype=float))
    if k == "FixedTemp":
        return receiver.FixedTempBC(spec["r"], spec["h"], spec["nt"], spec["nz"], times, np.array(spec["data"], dtype=float))
    if k == "Convective":
        return receiver.ConvectiveBC(spec["r"], spec["h"], spec["nz"], times, np.array(spec["data"], dtype=float))
    if k == "Film":
        return receiver.FilmCoefficientConvectiveBC(spec["r"], spec["h"], spec["nz"],
                                                    np.array(spec["fluid_T"], dtype=float), np.array(spec["film"], dtype=float))
    return receiver.PressureBC(times, np.array(spec["data"], dtype=float))


def methods(spec):
    """(method name, table) pairs of a kind; table = the data the method interpolates"""
    k = spec["kind"]
    if k == "HeatFlux":
        return [("flux", "data")]
    if k == "FixedTemp":
        return [("temperature", "data")]
    if k == "Convective":
        return [("fluid_temperature", "data")]
    if k == "Film":
        return [("fluid_temperature", "fluid_T"), ("film_coefficient", "film")]
    return [("pressure", "data")]


def grids(spec):
    """the grids as the code builds them (same numpy expressions)"""
    times = np.array(spec["times"], dtype=float)
    ts = np.linspace(0, 2 * np.pi, spec["nt"] + 1)[:-1]
    zs = np.linspace(0, spec["h"], spec["nz"])
    return times, ts, zs


def frac_points(rng, g, dyadic, n):
    """n points strictly inside random cells of grid g, at dyadic fractions of the cell"""
    out = []
    for _ in range(n):
        i = rng.randrange(len(g) - 1)
        f = rng.randint(1, 7) / 8.0 if dyadic else rng.uniform(0.02, 0.98)
        out.append(float(g[i] + f * (g[i + 1] - g[i])))
    return out


def gen_queries(rng, spec, quick):
    """list of (method, table, args, tag); args = tuple of float | np.ndarray"""
    times, ts, zs = grids(spec)
    k = spec["kind"]
    dy = spec["dyadic"]
    closed = np.append(ts, TWO_PI)
    out = []
    npt = 3 if quick else 6

    def outside(g):
        span = float(g[-1] - g[0])
        return [float(g[0] - 0.5 * span), float(g[-1] + 0.75 * span), float(g[0] - 0.25), float(g[-1] + 2.0)]

    for meth, table in methods(spec):
        if k in SURFACE:
            gp = [(a, b, c) for a in range(len(times)) for b in range(len(ts)) for c in range(len(zs))]
            rng.shuffle(gp)
            for a, b, c in gp[: (6 if quick else 20)]:
                out.append((meth, table, (float(times[a]), float(ts[b]), float(zs[c])), "grid"))
            tin, zin = frac_points(rng, times, dy, npt), frac_points(rng, zs, dy, npt)
            thin = frac_points(rng, closed, False, npt)
            for t, th, z in zip(tin, thin, zin):
                out.append((meth, table, (t, th, z), "interior"))
            # interior in t, z at a grid angle: exact comparison possible
            for t, z in zip(tin, zin):
                out.append((meth, table, (t, float(rng.choice(list(ts))), z), "interior-gridtheta"))
            # seam
            ta, zc = float(rng.choice(list(times))), float(rng.choice(list(zs)))
            last = float(ts[-1])
            seam = [last + f * (TWO_PI - last) for f in (0.125, 0.5, 0.875)]
            seam += [TWO_PI, float(np.nextafter(TWO_PI, 0.0)), float(np.nextafter(TWO_PI, 10.0)), 0.0,
                     TWO_PI + seam[1], seam[1] - TWO_PI, -seam[0], -TWO_PI, 2 * TWO_PI, 3 * TWO_PI + 0.3,
                     -1.0e-20, -0.75, 1.0e3]
            for th in seam:
                out.append((meth, table, (ta, th, zc), "seam"))
                out.append((meth, table, (tin[0], th, zin[0]), "seam"))
            # out of range t / z (linear extrapolation)
            for t in outside(times):
                out.append((meth, table, (t, thin[0], zin[0]), "extrapolate"))
                out.append((meth, table, (t, float(ts[-1]), float(zs[0])), "extrapolate"))
            for z in outside(zs):
                out.append((meth, table, (tin[0], thin[0], z), "extrapolate"))
                out.append((meth, table, (float(times[0]), float(ts[0]), z), "extrapolate"))
            # arrays
            for shape in [(3,), (2, 2), ()] + ([] if quick else [(1,), (2, 1, 2)]):
                n = int(np.prod(shape)) if shape else 1
                tt = np.array(frac_points(rng, times, dy, n)).reshape(shape)
                hh = np.array([rng.choice(seam + thin + list(map(float, ts))) for _ in range(n)]).reshape(shape)
                zz = np.array(frac_points(rng, zs, dy, n)).reshape(shape)
                out.append((meth, table, (tt, hh, zz), "all-array"))
                mixes = [(tt, float(hh.flat[0]), zz), (float(tt.flat[0]), hh, float(zz.flat[0])),
                         (tt, hh, float(zz.flat[0])), (float(tt.flat[0]), float(hh.flat[0]), zz)]
                for m in (mixes if not quick else [mixes[rng.randrange(4)], mixes[rng.randrange(4)]]):
                    out.append((meth, table, m, "mixed"))
            out.append((meth, table, (np.float64(tin[0]), int(1), np.float64(zin[0])), "numpy-scalars"))
        elif k == "Convective":
            gp = [(a, c) for a in range(len(times)) for c in range(len(zs))]
            rng.shuffle(gp)
            for a, c in gp[: (6 if quick else 20)]:
                out.append((meth, table, (float(times[a]), float(zs[c])), "grid"))
            tin, zin = frac_points(rng, times, dy, 2 * npt), frac_points(rng, zs, dy, 2 * npt)
            for t, z in zip(tin, zin):
                out.append((meth, table, (t, z), "interior"))
            for t in outside(times):
                out.append((meth, table, (t, zin[0]), "extrapolate"))
            for z in outside(zs):
                out.append((meth, table, (tin[0], z), "extrapolate"))
            out.append((meth, table, (outside(times)[1], outside(zs)[0]), "extrapolate"))
            for shape in [(3,), (2, 2), ()] + ([] if quick else [(1,), (2, 1, 2)]):
                n = int(np.prod(shape)) if shape else 1
                tt = np.array(frac_points(rng, times, dy, n)).reshape(shape)
                zz = np.array(frac_points(rng, zs, dy, n)).reshape(shape)
                out.append((meth, table, (tt, zz), "all-array"))
                out.append((meth, table, (tt, float(zz.flat[0])), "mixed"))
                out.append((meth, table, (float(tt.flat[0]), zz), "mixed"))
            out.append((meth, table, (np.float64(tin[0]), np.float64(zin[0])), "numpy-scalars"))
        else:
            g = zs if k == "Film" else times
            wrap_args = (lambda x: (0.0, x)) if k == "Film" else (lambda x: (x,))
            for a in range(len(g)):
                out.append((meth, table, wrap_args(float(g[a])), "grid"))
            for x in frac_points(rng, g, dy, 2 * npt):
                out.append((meth, table, wrap_args(x), "interior"))
            for x in outside(g):
                out.append((meth, table, wrap_args(x), "out-of-range"))
            for shape in [(3,), (2, 2), ()]:
                n = int(np.prod(shape)) if shape else 1
                xx = np.array(frac_points(rng, g, dy, n)).reshape(shape)
                out.append((meth, table, wrap_args(xx), "all-array"))
            xx = np.array(frac_points(rng, g, dy, 2) + [outside(g)[1]])
            out.append((meth, table, wrap_args(xx), "array-out-of-range"))
    return out


# --------------------------------------------------------------------------------------
# real execution and canonical forms
# --------------------------------------------------------------------------------------
def q(x):
    n, d = float(x).as_integer_ratio()
    return "%d/%d" % (n, d)


def qs(xs):
    xs = list(xs)
    return ",".join(q(x) for x in xs) if xs else "-"


def enc_arg(a):
    if np.isscalar(a):
        return "s:" + q(a)
    a = np.asarray(a, dtype=float)
    return "a:%s:%s" % ("x".join(str(s) for s in a.shape) if a.shape else "-", qs(a.flatten()))


def is_scalar_args(args):
    return all(np.isscalar(a) for a in args)


def call_real(bc, meth, args):
    try:
        return ("ok", getattr(bc, meth)(*args))
    except Exception as e:  # canonicalised below
        return ("exc", type(e).__name__, str(e)[:120])


def model_line(spec, meth, table, args):
    times, ts, zs = grids(spec)
    k = spec["kind"]
    if k in SURFACE:
        flat = np.array(spec["data"], dtype=float).flatten()
        return "c19 th %s %s %s %s %s %s %s %s" % (q(TWO_PI), qs(times), qs(ts), qs(zs), qs(flat),
                                                  enc_arg(args[0]), enc_arg(args[1]), enc_arg(args[2]))
    if k == "Convective":
        flat = np.array(spec["data"], dtype=float).flatten()
        return "c19 cv %s %s %s %s %s" % (qs(times), qs(zs), qs(flat), enc_arg(args[0]), enc_arg(args[1]))
    g = zs if k == "Film" else times
    x = args[-1]
    return "c19 i1 %s %s %s" % (qs(g), qs(spec[table]), qs(np.asarray(x, dtype=float).flatten()))


def parse_q(s):
    n, d = s.split("/")
    return Fraction(int(n), int(d))


def parse_model(ans):
    """-> ('single', [v]) | ('array', shape, [v…]) | ('raise',) | ('error',) | ('ok', [v…])"""
    p = ans.strip().split(" ")
    if p[0] == "single":
        return ("single", None, [parse_q(p[1])])
    if p[0] == "array":
        shape = () if p[1] == "-" else tuple(int(s) for s in p[1].split("x"))
        return ("array", shape, [] if p[2] == "-" else [parse_q(s) for s in p[2].split(",")])
    if p[0] == "ok":
        return ("ok", None, [] if p[1] == "-" else [parse_q(s) for s in p[1].split(",")])
    return (p[0], None, [])


def theta_exact(spec, args):
    """is the theta weight exactly 0 or 1 for every element of the query?"""
    _, ts, _ = grids(spec)
    closed = set(map(float, np.append(ts, TWO_PI)))
    raw = np.asarray(args[1], dtype=float).flatten()
    if np.any(raw < 0.0):
        return False  # np.mod of a negative angle adds 2*pi in floating point (one rounding)
    th = np.mod(raw, TWO_PI)
    return all(float(x) in closed for x in th)


def compare(spec, meth, args, real, ans, scale):
    """-> (ok, exact, message)"""
    m = parse_model(ans)
    k = spec["kind"]
    if real[0] == "exc":
        if k in ("Film", "Pressure") and real[1] == "ValueError" and "interpolation range" in real[2]:
            return (m[0] == "raise", True, "real raises out-of-range, model %s" % ans[:60])
        return (False, False, "real raised %s: %s; model %s" % (real[1], real[2], ans[:60]))
    val = np.asarray(real[1])
    if m[0] in ("raise", "error", "bad-op"):
        return (False, False, "model says %s, real returned %r" % (m[0], val))
    # shapes
    if k in ("Film", "Pressure"):
        want_shape = np.shape(args[-1])
    elif is_scalar_args(args):
        want_shape = (1,)
        if m[0] != "single":
            return (False, False, "model %s for scalar arguments" % m[0])
    else:
        want_shape = m[1]
        if m[0] != "array":
            return (False, False, "model %s for array arguments" % m[0])
    if tuple(val.shape) != tuple(want_shape):
        return (False, False, "result shape %s, model %s" % (val.shape, want_shape))
    rv = [float(x) for x in val.flatten()]
    if len(rv) != len(m[2]):
        return (False, False, "result size %d, model %d" % (len(rv), len(m[2])))
    exact = all(Fraction(a) == b for a, b in zip(rv, m[2]))
    if exact:
        return (True, True, "")
    # relative to the size of the data and of the result (an extrapolation off a very short interval is large)
    tol = 1e-12 * max(1.0, scale, max(abs(float(b)) for b in m[2]))
    worst = max(abs(a - float(b)) for a, b in zip(rv, m[2]))
    return (worst <= tol, False, "max |real-model| = %.3e (tol %.1e)" % (worst, tol))


def scale_of(spec):
    vals = []
    for key in ("data", "fluid_T", "film"):
        if key in spec:
            vals.append(float(np.max(np.abs(np.array(spec[key], dtype=float)))))
    return max(vals + [1.0])


# --------------------------------------------------------------------------------------
# the property itself on real objects (independent of the model)
# --------------------------------------------------------------------------------------
def jsonable_args(args):
    return [a.tolist() if isinstance(a, np.ndarray) else float(a) for a in args]


def args_from_json(lst):
    return tuple(np.array(a, dtype=float) if isinstance(a, list) else a for a in lst)


def predicate_object(spec, rng=None, quick=True):
    """Evaluate C19's statements on one real object; returns list of (signature, message, replay-args)."""
    import random
    rng = rng or random.Random(0)
    bad = []
    try:
        bc = build(spec)
    except Exception as e:
        return [("c19:ctor", "constructor rejected correctly shaped data: %s: %s" % (type(e).__name__, e), None)]
    times, ts, zs = grids(spec)
    k = spec["kind"]
    sc = scale_of(spec)
    tol = (0.0 if spec["dyadic"] else 1e-12 * sc)
    ptol = 1e-9 * sc

    def val1(meth, args):
        """scalar query -> float, checks 'a single value'"""
        r = call_real(bc, meth, args)
        if r[0] == "exc":
            bad.append(("c19:query-raises", "%s%r raised %s: %s" % (meth, tuple(args), r[1], r[2]), (meth, args)))
            return None
        v = np.asarray(r[1])
        if v.size != 1:
            bad.append(("c19:single", "%s%r returned %d values for scalar arguments" % (meth, tuple(args), v.size), (meth, args)))
            return None
        return float(v.reshape(-1)[0])

    for meth, table in methods(spec):
        D = np.array(spec[table], dtype=float)
        if k in SURFACE:
            Dc = np.concatenate((D, D[:, :1]), axis=1)
            closed = np.append(ts, TWO_PI)
            # (1) datum at every grid point
            for a in range(len(times)):
                for b in range(len(ts)):
                    for c in range(len(zs)):
                        args = (float(times[a]), float(ts[b]), float(zs[c]))
                        v = val1(meth, args)
                        if v is not None and abs(v - D[a, b, c]) > tol:
                            bad.append(("c19:grid", "%s at grid point (time %d, angle %d, height %d) = %r, datum %r"
                                        % (meth, a, b, c, v, D[a, b, c]), (meth, args)))
            # (2) between the corner data; (3) periodic
            for _ in range(4 if quick else 12):
                t, z = frac_points(rng, times, False, 1)[0], frac_points(rng, zs, False, 1)[0]
                th = rng.uniform(0.0, TWO_PI * 0.999999)
                args = (t, th, z)
                v = val1(meth, args)
                if v is None:
                    continue
                i = int(np.searchsorted(times, t, side="right")) - 1
                j = int(np.searchsorted(closed, th, side="right")) - 1
                kk = int(np.searchsorted(zs, z, side="right")) - 1
                corner = Dc[i:i + 2, j:j + 2, kk:kk + 2]
                slack = 1e-12 * sc
                if not (corner.min() - slack <= v <= corner.max() + slack):
                    bad.append(("c19:between", "%s%r = %r not between the corner data [%r, %r]"
                                % (meth, args, v, corner.min(), corner.max()), (meth, args)))
                for n in (1, -1, 2, -3):
                    args2 = (t, th + n * TWO_PI, z)
                    v2 = val1(meth, args2)
                    if v2 is not None and abs(v2 - v) > ptol:
                        bad.append(("c19:periodic", "%s not periodic: theta=%r gives %r, theta%+d*2pi gives %r"
                                    % (meth, th, v, n, v2), (meth, args2)))
            # seam: value at 2*pi is the column-0 datum; last cell interpolates column nt-1 -> column 0
            for a in range(len(times)):
                for c in range(len(zs)):
                    args = (float(times[a]), TWO_PI, float(zs[c]))
                    v = val1(meth, args)
                    if v is not None and abs(v - D[a, 0, c]) > ptol:
                        bad.append(("c19:periodic", "%s at theta=2*pi (time %d, height %d) = %r, datum at theta=0 is %r"
                                    % (meth, a, c, v, D[a, 0, c]), (meth, args)))
                    f = rng.choice([0.25, 0.5, 0.75])
                    th = float(ts[-1] + f * (TWO_PI - ts[-1]))
                    args = (float(times[a]), th, float(zs[c]))
                    v = val1(meth, args)
                    want = (1 - f) * D[a, -1, c] + f * D[a, 0, c]
                    if v is not None and abs(v - want) > ptol:
                        bad.append(("c19:periodic", "%s in the last angular cell (fraction %g) = %r, interpolation "
                                    "between column nt-1 and column 0 is %r" % (meth, f, v, want), (meth, args)))
            # (4) array queries = element-wise scalar queries
            for shape in [(4,), (2, 3), ()]:
                n = int(np.prod(shape)) if shape else 1
                tt = np.array([rng.uniform(times[0] - 1.0, times[-1] + 1.0) for _ in range(n)]).reshape(shape)
                hh = np.array([rng.uniform(-7.0, 14.0) for _ in range(n)]).reshape(shape)
                zz = np.array([rng.uniform(zs[0] - 0.5, zs[-1] + 0.5) for _ in range(n)]).reshape(shape)
                variants = [(tt, hh, zz), (tt, float(hh.flat[0]), zz), (float(tt.flat[0]), hh, float(zz.flat[0])),
                            (tt, hh, float(zz.flat[0])), (float(tt.flat[0]), float(hh.flat[0]), zz)]
                for args in variants:
                    check_elementwise(bc, meth, args, shape, bad, val1)
            # integer-typed coordinate arrays mixed with non-integer scalars (np.arange grids are common)
            ti, zi = int_grid(times), int_grid(zs)
            tq, hq, zq = frac_points(rng, times, False, 1)[0], rng.uniform(0.1, 6.0), frac_points(rng, zs, False, 1)[0]
            allarr = (ti, np.array([rng.uniform(0.1, 6.0) for _ in range(len(ti))]),
                      np.array([frac_points(rng, zs, False, 1)[0] for _ in range(len(ti))]))   # every argument an array, times integer-typed
            for args in [(tq, hq, zi), (ti, hq, zq), (tq, np.arange(0, 6), zq), (ti, hq, zi[:len(ti)] if len(zi) >= len(ti) else zq), allarr]:
                arrs = [a for a in args if isinstance(a, np.ndarray)]
                if arrs and all(a.size > 0 for a in arrs) and len({a.shape for a in arrs}) == 1:
                    check_elementwise(bc, meth, args, arrs[0].shape, bad, val1)
        elif k == "Convective":
            for a in range(len(times)):
                for c in range(len(zs)):
                    args = (float(times[a]), float(zs[c]))
                    v = val1(meth, args)
                    if v is not None and abs(v - D[a, c]) > tol:
                        bad.append(("c19:grid", "%s at grid point (time %d, height %d) = %r, datum %r"
                                    % (meth, a, c, v, D[a, c]), (meth, args)))
            for _ in range(4 if quick else 12):
                t, z = frac_points(rng, times, False, 1)[0], frac_points(rng, zs, False, 1)[0]
                args = (t, z)
                v = val1(meth, args)
                if v is None:
                    continue
                i = int(np.searchsorted(times, t, side="right")) - 1
                kk = int(np.searchsorted(zs, z, side="right")) - 1
                corner = D[i:i + 2, kk:kk + 2]
                slack = 1e-12 * sc
                if not (corner.min() - slack <= v <= corner.max() + slack):
                    bad.append(("c19:between", "%s%r = %r not between the corner data [%r, %r]"
                                % (meth, args, v, corner.min(), corner.max()), (meth, args)))
            for shape in [(4,), (2, 3), ()]:
                n = int(np.prod(shape)) if shape else 1
                tt = np.array([rng.uniform(times[0] - 1.0, times[-1] + 1.0) for _ in range(n)]).reshape(shape)
                zz = np.array([rng.uniform(zs[0] - 0.5, zs[-1] + 0.5) for _ in range(n)]).reshape(shape)
                for args in [(tt, zz), (tt, float(zz.flat[0])), (float(tt.flat[0]), zz)]:
                    check_elementwise(bc, meth, args, shape, bad, val1)
            ti, zi = int_grid(times), int_grid(zs)
            tq, zq = frac_points(rng, times, False, 1)[0], frac_points(rng, zs, False, 1)[0]
            for args in [(tq, zi), (ti, zq), (ti, np.array([frac_points(rng, zs, False, 1)[0] for _ in range(len(ti))]))]:
                if args[0 if isinstance(args[0], np.ndarray) else 1].size > 0:
                    check_elementwise(bc, meth, args, (args[0] if isinstance(args[0], np.ndarray) else args[1]).shape, bad, val1)
        else:
            g = zs if k == "Film" else times
            mk = (lambda x: (0.0, x)) if k == "Film" else (lambda x: (x,))
            for a in range(len(g)):
                v = val1(meth, mk(float(g[a])))
                if v is not None and abs(v - D[a]) > tol:
                    bad.append(("c19:grid", "%s at grid point %d = %r, datum %r" % (meth, a, v, D[a]), (meth, mk(float(g[a])))))
            for _ in range(4 if quick else 12):
                x = frac_points(rng, g, False, 1)[0]
                v = val1(meth, mk(x))
                if v is None:
                    continue
                i = int(np.searchsorted(g, x, side="right")) - 1
                lo, hi = min(D[i], D[i + 1]), max(D[i], D[i + 1])
                if not (lo - 1e-12 * sc <= v <= hi + 1e-12 * sc):
                    bad.append(("c19:between", "%s(%r) = %r not between the neighbouring data [%r, %r]" % (meth, x, v, lo, hi), (meth, mk(x))))
            for shape in [(4,), (2, 3), ()]:
                n = int(np.prod(shape)) if shape else 1
                xx = np.array([rng.uniform(g[0], g[-1]) for _ in range(n)]).reshape(shape)
                check_elementwise(bc, meth, mk(xx), shape, bad, val1)
    return bad


def int_grid(g):
    """the integers inside [g[0], g[-1]] as an integer-typed array"""
    lo, hi = int(np.ceil(g[0])), int(np.floor(g[-1]))
    if hi - lo + 1 <= 64:
        return np.arange(lo, hi + 1, dtype=int)
    # a long axis: an even sample plus the integers next to every grid point
    near = [int(f(x)) for x in g for f in (np.floor, np.ceil)]
    pts = np.concatenate([np.linspace(lo, hi, 40).astype(int), np.array(near, dtype=int)])
    return np.unique(pts[(pts >= lo) & (pts <= hi)]).astype(int)


def check_elementwise(bc, meth, args, shape, bad, val1):
    r = call_real(bc, meth, args)
    if r[0] == "exc":
        bad.append(("c19:array", "%s with array arguments of shape %s (%s) raised %s: %s"
                    % (meth, shape, "/".join("array" if isinstance(a, np.ndarray) else "scalar" for a in args), r[1], r[2]),
                    (meth, args)))
        return
    v = np.asarray(r[1])
    if tuple(v.shape) != tuple(shape):
        bad.append(("c19:array", "%s with array arguments of shape %s returned shape %s" % (meth, shape, v.shape), (meth, args)))
        return
    flat = v.reshape(-1)
    n = flat.size
    for idx in range(n):
        el = tuple(float(np.asarray(a).reshape(-1)[idx]) if isinstance(a, np.ndarray) else a for a in args)
        s = val1(meth, el)
        if s is None:
            return
        if not (s == float(flat[idx]) or (s != s and flat[idx] != flat[idx])):
            bad.append(("c19:array", "%s element %d of the array query = %r but the scalar query %r = %r"
                        % (meth, idx, float(flat[idx]), el, s), (meth, args)))
            return


# --------------------------------------------------------------------------------------
# constructors on a malformed stream of shapes
# --------------------------------------------------------------------------------------
def ctor_cases(rng, quick):
    """(kind, nt, nz, times_shape, data_shape[, second shape]) covering right and wrong shapes"""
    cases = []
    reps = 6 if quick else 30
    for _ in range(reps):
        n, nt, nz = rng.randint(1, 4), rng.randint(1, 5), rng.randint(1, 5)
        right3 = (n, nt, nz)
        wrong3 = [right3, (n, nz, nt), (nt, n, nz), (n, nt), (n, nt, nz, 1), (1, n, nt, nz), (n + 1, nt, nz), (n, nt + 1, nz),
                  (n, nt, nz + 1), (n, nt * nz), (n * nt * nz,), (), (nz, nt, n), (n, nt, nz - 1)]
        for kind in ("hf", "ft"):
            for ds in wrong3:
                cases.append((kind, nt, nz, (n,), ds))
            cases.append((kind, nt, nz, (), (1, nt, nz)))          # 0-d times
            cases.append((kind, nt, nz, (n, 2), right3))            # 2-d times, data "matching" len(times)
            cases.append((kind, nt, nz, (n, 1), right3))
            cases.append((kind, 0, nz, (n,), (n, 0, nz)))           # no angular division
        right2 = (n, nz)
        for ds in [right2, (nz, n), (n,), (n, nz, 1), (n + 1, nz), (n, nz + 1), (n * nz,), (), (n, 1, nz), (n, nz - 1)]:
            cases.append(("cv", None, nz, (n,), ds))
        cases.append(("cv", None, nz, (), (1, nz)))
        cases.append(("cv", None, nz, (n, 2), right2))
        for fs, gs in [((nz,), (nz,)), ((nz,), (nz, 1)), ((nz, 1), (nz,)), ((nz + 1,), (nz,)), ((nz,), (nz + 1,)),
                       ((nz,), ()), ((), (nz,)), ((1, nz), (1, nz)), ((nz, 1), (nz, 1)), ((nz - 1,), (nz - 1,))]:
            cases.append(("film", None, nz, fs, gs))
        cases.append(("film", None, 0, (0,), (0,)))
        for ts, ds in [((n,), (n,)), ((n,), (n + 1,)), ((n + 1,), (n,)), ((n,), (n, 1)), ((n, 1), (n,)), ((n,), ()),
                       ((n, 2), (n, 2)), ((n, n), (n, n)), ((2, 2, 2), (2, 2, 2)), ((), ()), ((0,), (0,)), ((n, 1), (n, 1))]:
            cases.append(("pr", None, None, ts, ds))
    # dedupe, keep order
    seen, out = set(), []
    for c in cases:
        if c not in seen and all(x >= 0 for s in c[3:] for x in s):
            seen.add(c)
            out.append(c)
    return out


def filled(shape, increasing=False):
    n = int(np.prod(shape)) if shape else 1
    a = np.arange(n, dtype=float).reshape(shape) if increasing else np.linspace(1.0, 2.0, n).reshape(shape)
    return a


def ctor_real(case):
    from srlife import receiver
    kind, nt, nz, s1, s2 = case
    try:
        if kind in ("hf", "ft"):
            cls = receiver.HeatFluxBC if kind == "hf" else receiver.FixedTempBC
            cls(1.0, 2.0, nt, nz, filled(s1, True), filled(s2))
        elif kind == "cv":
            receiver.ConvectiveBC(1.0, 2.0, nz, filled(s1, True), filled(s2))
        elif kind == "film":
            receiver.FilmCoefficientConvectiveBC(1.0, 2.0, nz, filled(s1), filled(s2))
        else:
            receiver.PressureBC(filled(s1, True), filled(s2))
        return "accept"
    except ValueError as e:
        return "shape" if str(e).startswith(OWN_MESSAGES) else "other"
    except TypeError:
        return "type"
    except Exception as e:
        return "exc:" + type(e).__name__


def ctor_line(case):
    kind, nt, nz, s1, s2 = case
    sh = lambda s: "x".join(str(x) for x in s) if s else "-"
    if kind in ("hf", "ft"):
        return "c19 ctor %s %d %d %s %s" % (kind, nt, nz, sh(s1), sh(s2))
    if kind in ("cv", "film"):
        return "c19 ctor %s %d %s %s" % (kind, nz, sh(s1), sh(s2))
    return "c19 ctor pr %s %s" % (sh(s1), sh(s2))


def ctor_documented(case):
    """the documented shape, written independently of the model"""
    kind, nt, nz, s1, s2 = case
    if kind in ("hf", "ft"):
        return len(s1) == 1 and tuple(s2) == (s1[0], nt, nz) and nt >= 1
    if kind == "cv":
        return len(s1) == 1 and tuple(s2) == (s1[0], nz)
    if kind == "film":
        return tuple(s1) == (nz,) and tuple(s2) == (nz,) and nz >= 1
    return len(s1) == 1 and tuple(s1) == tuple(s2) and s1[0] >= 1


# --------------------------------------------------------------------------------------
# Tube.set_bc
# --------------------------------------------------------------------------------------
def setbc_cases(rng, quick):
    cases = []
    deltas = [0.0, 1e-9, -1e-9, 5e-6, -5e-6, 2e-5, -2e-5, 1e-3, -1e-3, 0.5]
    for _ in range(10 if quick else 60):
        r = rng.choice([rng.randint(2, 40) / 8.0, rng.uniform(0.05, 30.0), rng.uniform(1e-3, 1e-2)])
        t = r * rng.choice([0.05, 0.1, 0.25, 0.5])
        h = rng.choice([rng.randint(1, 80) / 4.0, rng.uniform(0.1, 100.0)])
        for loc in ("inner", "outer", "top", "Inner", "outer ", "in"):
            target = r - t if loc.strip().lower().startswith("in") else r
            for _ in range(3):
                dr, dh = rng.choice(deltas), rng.choice(deltas)
                cases.append((loc, target * (1 + dr), h * (1 + dh), r, t, h))
            cases.append((loc, h, target, r, t, h))          # radius and height exchanged
            cases.append((loc, r, h, r, t, h))                # outer radius offered
            cases.append((loc, r - t, h, r, t, h))            # inner radius offered
    return [c for c in cases if " " not in c[0]] + [("outer-wall", 1.0, 2.0, 1.0, 0.25, 2.0)]


class _FakeBC:
    def __init__(self, r, h):
        self.r, self.h = r, h


def setbc_real(case, kind_rng=None):
    from srlife import receiver
    loc, bcr, bch, r, t, h = case
    tube = receiver.Tube(r, t, h, 3, 4, 2)
    bc = receiver.ConvectiveBC(bcr, bch, 2, np.array([0.0, 1.0]), np.zeros((2, 2)))
    try:
        tube.set_bc(bc, loc)
    except ValueError as e:
        m = str(e)
        state = (tube.inner_bc is None and tube.outer_bc is None)
        if m.startswith("Inner BC radius"):
            return "mismatch-inner", state
        if m.startswith("Outer BC radius"):
            return "mismatch-outer", state
        if m.startswith("Wall location"):
            return "bad-wall", state
        return "exc:ValueError:" + m[:40], state
    except Exception as e:
        return "exc:" + type(e).__name__, True
    if tube.inner_bc is bc and tube.outer_bc is None:
        return "inner", True
    if tube.outer_bc is bc and tube.inner_bc is None:
        return "outer", True
    return "stored-nowhere", False


def isclose_doc(a, b):
    return abs(a - b) <= 1e-8 + 1e-5 * abs(b)


def setbc_documented(case):
    loc, bcr, bch, r, t, h = case
    if loc == "inner":
        return "inner" if (isclose_doc(bcr, r - t) and isclose_doc(bch, h)) else "reject"
    if loc == "outer":
        return "outer" if (isclose_doc(bcr, r) and isclose_doc(bch, h)) else "reject"
    return "reject"


# --------------------------------------------------------------------------------------
def run(ctx):
    quick = ctx.quick()
    rng = ctx.rng
    ctx.rule = ("random BC objects of the five kinds (nt 1..6, nz 2..5, 2..4 times; grids unrelated to any tube), a dyadic "
                "stream (exact scipy arithmetic) and a general stream; queries at grid points, cell interiors, the "
                "angular seam (last cell, 2*pi, 2*pi -/+ 1 ulp, theta +/- k*2*pi, negative theta), out-of-range t/z, "
                "all-array / mixed scalar-array / 0-d / numpy-scalar arguments; a malformed stream of shapes for the five "
                "constructors; radius/height/wall for Tube.set_bc. Non-trivial = not a grid-point scalar query of "
                "a correctly shaped object; distinct = distinct (object, method, arguments) or (constructor, shapes) "
                "or set_bc tuple")
    ctx.trusted = ["Lean 4 kernel + Mathlib (propext, Classical.choice, Quot.sound)",
                   "correspondence harness harness/c19.py (float -> exact rational encoding, canonicalisers)",
                   "scipy's interp1d / RegularGridInterpolator are compared with the model on every run (not assumed)",
                   "IEEE rounding of scipy's arithmetic: bounded by 1e-12*max|data| where the comparison is not exact"]
    ctx.assumptions = ["times strictly increasing, height > 0 (scipy rejects other grids; not part of C19's shape statement)",
                       "array arguments of one query all have the same shape (numpy broadcasting of unequal shapes is not modelled)"]
    thm_ok = common.lean_stage(ctx, [("SrProps.C19", "SrProps/C19.lean", "SrProps.C19")])
    drv = common.LeanDriver(["SrModel.Interp"])

    # ---------------- objects and queries ----------------
    n_dy, n_gen = (14, 4) if quick else (60, 20)
    specs = []
    for kind in KINDS:
        for i in range(n_dy + n_gen):
            specs.append(gen_spec(rng, kind, dyadic=(i < n_dy)))
    cases, lines = [], []
    pred_bad = []
    ctor_failed = []
    for si, spec in enumerate(specs):
        try:
            bc = build(spec)
        except Exception as e:
            ctor_failed.append((spec, "%s: %s" % (type(e).__name__, e)))
            continue
        for meth, table, args, tag in gen_queries(rng, spec, quick):
            real = call_real(bc, meth, args)
            cases.append((si, spec, meth, args, tag, real))
            lines.append(model_line(spec, meth, table, args))
    answers = drv.ask(lines)
    mism, n_exact, n_tol, must_exact_fail = [], 0, 0, []
    for (si, spec, meth, args, tag, real), ans in zip(cases, answers):
        ok, exact, msg = compare(spec, meth, args, real, ans, scale_of(spec))
        key = (si, meth, repr(jsonable_args(args)))
        ctx.case(key, nontrivial=(tag != "grid"), tag="%s/%s/%s" % (spec["kind"], "dyadic" if spec["dyadic"] else "general", tag),
                 sample={"kind": spec["kind"], "method": meth, "args": jsonable_args(args), "tag": tag,
                         "real": repr(real[1])[:80] if real[0] == "ok" else real, "model": ans[:80]})
        if not ok:
            mism.append((spec, meth, args, tag, msg))
            continue
        if exact:
            n_exact += 1
        else:
            n_tol += 1
            expect_exact = spec["dyadic"] and tag not in ("numpy-scalars",) and \
                (spec["kind"] not in SURFACE or theta_exact(spec, args))
            if expect_exact:
                must_exact_fail.append((spec, meth, args, tag, msg))
    ctx.obligation("correspondence: BC query values, result shapes and scalar/array dispatch == model on Rat "
                   "(exact where scipy's arithmetic is exact, else 1e-12*max|data|)",
                   not mism and not ctor_failed,
                   "%d mismatches of %d (%d exact, %d within tolerance); first: %s; constructor failures: %s"
                   % (len(mism), len(cases), n_exact, n_tol,
                      [(m[0]["kind"], m[1], jsonable_args(m[2]), m[3], m[4]) for m in mism[:1]], [c[1] for c in ctor_failed[:1]]))
    ctx.obligation("correspondence: dyadic-stream cases with a 0/1 angular weight agree bit-for-bit", not must_exact_fail,
                   "%d inexact; first: %s" % (len(must_exact_fail),
                                              [(m[0]["kind"], m[1], jsonable_args(m[2]), m[3], m[4]) for m in must_exact_fail[:1]]))
    ctx.extra["values_exact"] = n_exact
    ctx.extra["values_within_1e-12"] = n_tol

    # ---------------- constructors ----------------
    ccases = ctor_cases(rng, quick)
    creal = [ctor_real(c) for c in ccases]
    cans = drv.ask([ctor_line(c) for c in ccases])
    cmism, cpred = [], []
    for c, rr, a in zip(ccases, creal, cans):
        doc = ctor_documented(c)
        ctx.case(("ctor",) + tuple(map(str, c)), nontrivial=True, tag="ctor/%s/%s" % (c[0], rr),
                 sample={"ctor": c[0], "nt": c[1], "nz": c[2], "shapes": [list(c[3]), list(c[4])], "real": rr, "model": a})
        if rr != a.strip():
            cmism.append((c, rr, a))
        if (rr == "accept") != doc:
            cpred.append((c, rr, doc))
    ctx.obligation("correspondence: constructor outcome (accept / own shape error / TypeError / other ValueError) == model",
                   not cmism, "%d mismatches of %d; first: %s" % (len(cmism), len(ccases), cmism[:1]))

    # ---------------- set_bc ----------------
    scases = setbc_cases(rng, quick)
    sreal = [setbc_real(c) for c in scases]
    sans = drv.ask(["c19 setbc %s %s %s %s %s %s" % (c[0], q(c[1]), q(c[2]), q(c[3]), q(c[4]), q(c[5])) for c in scases])
    smism, spred = [], []
    for c, (rr, state_ok), a in zip(scases, sreal, sans):
        doc = setbc_documented(c)
        ctx.case(("setbc",) + c, nontrivial=True, tag="setbc/%s" % rr,
                 sample={"loc": c[0], "bc.r": c[1], "bc.h": c[2], "tube r,t,h": c[3:], "real": rr, "model": a})
        if rr != a.strip():
            smism.append((c, rr, a))
        got = rr if rr in ("inner", "outer") else ("reject" if rr.startswith(("mismatch", "bad-wall")) else rr)
        if got != doc or not state_ok:
            spred.append((c, rr, doc, state_ok))
    ctx.obligation("correspondence: Tube.set_bc outcome == model", not smism,
                   "%d mismatches of %d; first: %s" % (len(smism), len(scases), smism[:1]))

    # ---------------- the property on the real code ----------------
    for si, spec in enumerate(specs):
        for sig, msg, ra in predicate_object(spec, rng, quick):
            pred_bad.append((sig, msg, spec, ra))
    for spec, msg in ctor_failed:
        pred_bad.append(("c19:ctor", "constructor rejected correctly shaped data: " + msg, spec, None))
    n_pred = len(specs)
    ctx.obligation("property predicate on real BC objects (datum at grid points, betweenness, periodicity, single value, "
                   "array == element-wise scalar)", not pred_bad,
                   "%d failures on %d objects; first: %s" % (len(pred_bad), n_pred, [(p[0], p[1]) for p in pred_bad[:1]]))
    ctx.obligation("property predicate: constructors accept iff the data have the documented shape", not cpred,
                   "%d of %d; first: %s" % (len(cpred), len(ccases), cpred[:1]))
    ctx.obligation("property predicate: set_bc accepts iff radius and height match (isclose) on a known wall", not spred,
                   "%d of %d; first: %s" % (len(spred), len(scases), spred[:1]))
    ctx.extra["objects"] = len(specs)
    ctx.extra["queries_validated_against_impl"] = len(cases)
    ctx.extra["ctor_cases"] = len(ccases)
    ctx.extra["setbc_cases"] = len(scases)

    # ---------------- outcomes ----------------
    reported = set()
    for sig, msg, spec, ra in pred_bad:
        if sig in reported:
            continue
        reported.add(sig)
        rep = {"what": "query", "spec": spec}
        if ra is not None:
            rep["method"], rep["args"] = ra[0], jsonable_args(ra[1])
        ctx.violation("real %sBC: %s" % (spec["kind"], msg), rep, signature=sig)
    if cpred:
        c, rr, doc = cpred[0]
        ctx.violation("real constructor %s with nt=%s nz=%s, shapes %s / %s: %s although the shape is %sthe documented one"
                      % (c[0], c[1], c[2], c[3], c[4], rr, "" if doc else "not "),
                      {"what": "ctor", "case": [c[0], c[1], c[2], list(c[3]), list(c[4])], "n_failing": len(cpred)},
                      signature="c19:shape-" + c[0])
    if spred:
        c, rr, doc, state_ok = spred[0]
        ctx.violation("real Tube.set_bc(loc=%r) with bc.r=%r bc.h=%r on tube r=%r t=%r h=%r: %s, documented: %s%s"
                      % (c[0], c[1], c[2], c[3], c[4], c[5], rr, doc, "" if state_ok else " (tube state changed on rejection)"),
                      {"what": "setbc", "case": list(c), "n_failing": len(spred)}, signature="c19:setbc")
    if not (pred_bad or cpred or spred) and (mism or must_exact_fail or cmism or smism or ctor_failed or not thm_ok):
        what = "a C19 theorem no longer checks" if not thm_ok else \
            "model and code disagree (%d values, %d constructor outcomes, %d set_bc outcomes) but no real execution violates the property" \
            % (len(mism) + len(must_exact_fail), len(cmism), len(smism))
        ctx.violation(what, {"values": [(m[0]["kind"], m[1], jsonable_args(m[2]), m[3], m[4]) for m in (mism + must_exact_fail)[:5]],
                             "value_specs": [m[0] for m in (mism + must_exact_fail)[:2]],
                             "ctor": cmism[:5], "setbc": smism[:5], "lean": ctx.extra.get("lean_errors"),
                             "theorems": ctx.extra.get("broken_theorems"),
                             "correspondence": "harness/c19.py vs SrModel.Interp"}, no_input=True)
    return "proof"


def replay(obj):
    r = obj["replay"]
    what = r.get("what")
    if what == "query":
        spec = r["spec"]
        bad = predicate_object(spec, None, True)
        if "method" in r:
            try:
                bc = build(spec)
                args = args_from_json(r["args"])
                print("%sBC.%s%r ->" % (spec["kind"], r["method"], tuple(r["args"])), call_real(bc, r["method"], args))
            except Exception as e:
                print("constructor:", type(e).__name__, e)
        for sig, msg, _ in bad[:10]:
            print("  FAILS [%s]: %s" % (sig, msg))
        print("property holds on this object" if not bad else "property violated on this object (%d failures)" % len(bad))
        return 1 if bad else 0
    if what == "ctor":
        c = r["case"]
        case = (c[0], c[1], c[2], tuple(c[3]), tuple(c[4]))
        rr, doc = ctor_real(case), ctor_documented(case)
        print("constructor %s nt=%s nz=%s shapes %s %s -> %s ; documented shape: %s" % (c[0], c[1], c[2], c[3], c[4], rr, doc))
        bad = (rr == "accept") != doc
        print("property violated on this input" if bad else "property holds on this input")
        return 1 if bad else 0
    if what == "setbc":
        case = tuple(r["case"])
        (rr, state_ok), doc = setbc_real(case), setbc_documented(case)
        got = rr if rr in ("inner", "outer") else ("reject" if rr.startswith(("mismatch", "bad-wall")) else rr)
        print("set_bc%r -> %s ; documented: %s" % (case, rr, doc))
        bad = got != doc or not state_ok
        print("property violated on this input" if bad else "property holds on this input")
        return 1 if bad else 0
    print("replay names no input:", {k: r[k] for k in r if k not in ("value_specs",)})
    return 1


if __name__ == "__main__":
    sys.exit(common.main("C19", run, replay))
