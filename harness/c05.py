"""C05 — ceramic reliability obeys the Weibull laws and is frame-indifferent.

Lean: SrModel/Ceramic.lean, SrModel/Volume.lean (models), SrProofs/Ceramic.lean, SrProofs/Volume.lean, SrProps/C05.lean (theorems).
Tie:  synthetic receivers (1-3 tubes, ragged panels, multipliers, 1D/2D/3D tubes) with random
      stress/temperature histories written into `tube.quadrature_results`; the real
      `tube_log_reliability` runs in-process with two recorders (the arguments/return value of
      `calculate_element_log_reliability`, the tensors handed to and the values returned by
      `numpy.linalg.eigvalsh`); the same stored histories go to the Lean model on Float
      (`c05tube`), whose `eig` is the table of recorded `eigvalsh` results, so only srlife's own
      logic is compared: element entries, tube series, tube log-reliability (1e-9 relative) and
      the tensor assembly (1e-13).  `determine_reliability` (real pool, nthreads=1) is compared with
      the model's aggregation of the model's tube values (`c05agg`).  The orientation grids of the
      model objects are compared with the model's (`c05grid`).
      Element volumes: the real `Tube.element_volumes()` (1D/2D/3D) is compared with SrModel.Volume (`vol`, 1e-12).
Search: metamorphic predicates on the real code, independent of the model: rotation of the stored
      tensors, compressive states, scale-up, longer service, volume linearity, PIA uniaxial law,
      zero-time power law, aggregation (ragged panels, multipliers), range (0,1].
      Also asserted: the uniaxial Weibull law for the six Batdorf models along the polar axis of their own
      grid (exact, same-grid kbar; eigvalsh replaced by "take the diagonal" so that the tension pairs with
      l = cos A) and for all eight models along the coordinate axes within the quadrature accuracy (5 %)
      (signature c05:uniaxial:<model>); Batdorf models with repeated principal values, diag vs rotated
      (signature c05:repeated-principal-values).  Element volumes on the real values alone: count, every volume > 0,
      elements and totals equal to the closed forms of the volume theorems, linear in the height (signature c05:volume).
"""
import json
import math
import os
import sys
import warnings

sys.path.insert(0, os.path.dirname(os.path.abspath(__file__)))
import common
from common import REPO
import numpy as np

REL = 1e-9          # model vs code
REL_ROT = 1e-8      # rotated vs unrotated real runs
MODELS = [  # protocol name, class name, crack-shape independent?
    ("PIA", "PIAModel", True),
    ("WNTSA", "WNTSAModel", True),
    ("MTSG", "MTSModelGriffithFlaw", False),
    ("MTSP", "MTSModelPennyShapedFlaw", False),
    ("CSEG", "CSEModelGriffithFlaw", False),
    ("CSEP", "CSEModelPennyShapedFlaw", False),
    ("SMMG", "SMMModelGriffithFlaw", False),
    ("SMMP", "SMMModelPennyShapedFlaw", False),
]
MCLASS = {m[0]: m[1] for m in MODELS}
INDEP = {m[0]: m[2] for m in MODELS}
COMPS = ["stress_xx", "stress_yy", "stress_zz", "stress_yz", "stress_xz", "stress_xy"]
TMIN, TMAX = 300.0, 1360.0   # inside every table of both SiC variants

_mats = {}


def material(variant):
    from srlife import materials
    if variant not in _mats:
        if variant == "tdep":
            # not shipped: SiC/base with a Weibull modulus (and strength) that depend strongly on temperature, so that
            # anything evaluated at a tube-average instead of the element temperature shows
            b = materials.CeramicMaterial.load(os.path.join(REPO, "srlife/data/damage/SiC.xml"), "base")
            s300 = float(b.strength(300.0))
            _mats[variant] = materials.StandardCeramicMaterial(
                np.array([250.0, 1400.0]), np.array([1.1 * s300, 0.8 * s300]), np.array([250.0, 800.0, 1400.0]),
                np.array([8.0, 10.0, 14.0]), b.C, b.nu_val, b.Nv_temperatures, b.Nvvals, b.Bv_temperatures, b.Bvvals)
        else:
            _mats[variant] = materials.CeramicMaterial.load(os.path.join(REPO, "srlife/data/damage/SiC.xml"), variant)
    return _mats[variant]


def variants():
    import xml.etree.ElementTree as ET
    return [c.tag for c in ET.parse(os.path.join(REPO, "srlife/data/damage/SiC.xml")).getroot()] + ["tdep"]


def make_model(name, na=None, nb=None, cares=True):
    from srlife import damage, solverparams
    pset = solverparams.ParameterSet()
    if na is not None:
        pset["nalpha"] = int(na)
    if nb is not None:
        pset["nbeta"] = int(nb)
    return getattr(damage, MCLASS[name])(pset, cares_cutoff=bool(cares))


# ---------------------------------------------------------------------------
# cases: a JSON-able description of one tube with its stored history
# ---------------------------------------------------------------------------
def build_tube(tc):
    from srlife import receiver
    g = tc["geom"]
    tube = receiver.Tube(g["ro"], g["t"], g["h"], g["nr"], g["nt"], g["nz"], multiplier=tc.get("mult", 1))
    if g["dim"] == 1:
        tube.make_1D(g["h"] / 2, 0.25)
    elif g["dim"] == 2:
        tube.make_2D(g["h"] / 2)
    tube.set_times(np.array(tc["times"], dtype=float))
    S = np.array(tc["S"], dtype=float)       # (nt, ne, nq, 6)
    T = np.array(tc["T"], dtype=float)       # (nt, ne, nq)
    for i, nm in enumerate(COMPS):
        tube.add_quadrature_results(nm, S[..., i])
    tube.add_quadrature_results("temperature", T)
    return tube


def nelem_of(geom):
    if geom["dim"] == 1:
        return geom["nr"] - 1
    if geom["dim"] == 2:
        return (geom["nr"] - 1) * geom["nt"]
    return (geom["nr"] - 1) * geom["nt"] * (geom["nz"] - 1)


class Recorder:
    """records what `calculate_element_log_reliability` got/returned and what went through eigvalsh"""

    def __init__(self, model):
        self.model, self.eig_calls, self.elem_calls = model, [], []

    def __enter__(self):
        from srlife import damage
        rec = self
        self.saved_la = damage.la

        class LA:
            def __getattr__(self, name):
                return getattr(np.linalg, name)

            def eigvalsh(self, a, *args, **kw):
                out = np.linalg.eigvalsh(a, *args, **kw)
                rec.eig_calls.append((np.array(a, copy=True), np.array(out, copy=True)))
                return out

        damage.la = LA()
        orig = self.model.calculate_element_log_reliability

        def wrapper(time, mandel, temps, vols, mat, tot):
            args = dict(time=np.array(time, dtype=float, copy=True), mandel=np.array(mandel, copy=True),
                        temps=np.array(temps, copy=True), vols=np.array(vols, copy=True), tot=float(tot))
            out = orig(time, mandel, temps, vols, mat, tot)
            args["out"] = np.array(out, copy=True)
            rec.elem_calls.append(args)
            return out

        self.model.calculate_element_log_reliability = wrapper
        return self

    def __exit__(self, *a):
        from srlife import damage
        damage.la = self.saved_la
        self.model.__dict__.pop("calculate_element_log_reliability", None)


class FakeReceiver:
    days = 1


def run_tube(model, variant, tc, tot, record=False):
    """real `tube_log_reliability` on the tube described by tc -> dict(elem, series, field[, rec])"""
    tube = build_tube(tc)
    with warnings.catch_warnings():
        warnings.simplefilter("ignore")
        with Recorder(model) as rec:
            series, field = model.tube_log_reliability(tube, material(variant), FakeReceiver(), tot)
    call = rec.elem_calls[0]
    res = dict(elem=np.ravel(call["out"]).astype(float), series=np.array(series, dtype=float),
               field=np.array(field), volumes=call["vols"], elem_shape=call["out"].shape)
    if record:
        res["call"] = call
        res["tensor"], res["eigs"] = rec.eig_calls[0]
    return res


def safe_run_tube(model, variant, tc, tot, record=False):
    try:
        return run_tube(model, variant, tc, tot, record), None
    except Exception as e:  # the real code raised
        return None, "%s: %s" % (type(e).__name__, e)


def bits(arr):
    a = np.ravel(np.asarray(arr, dtype=float))
    return ",".join(str(common.f2bits(x)) for x in a) if a.size else "-"


def unbits(s):
    return np.array([] if s == "-" else [common.bits2f(x) for x in s.split(",")], dtype=float)


def tube_line(name, cares, na, nb, tc, variant, rr):
    """request line for the Lean model from a recorded real run"""
    call = rr["call"]
    mat = material(variant)
    temps = call["temps"]
    S = np.array(tc["S"], dtype=float)
    nt, ne, nq = S.shape[:3]
    mats = [mat.strength(temps), mat.modulus(temps), mat.Nv(temps), mat.Bv(temps), mat.nu(temps), mat.c_bar(temps)]
    parts = ["c05tube", name, "1" if cares else "0", str(na), str(nb), str(common.f2bits(call["tot"])),
             str(nt), str(ne), str(nq), bits(call["time"]), bits(call["vols"])]
    parts += [bits(S[..., i]) for i in range(6)]
    parts += [bits(np.broadcast_to(m, temps.shape)) for m in mats]
    parts.append(bits(rr["eigs"]))
    return " ".join(parts)


def allclose(a, b, rel, abs_=0.0):
    a, b = np.ravel(np.asarray(a, dtype=float)), np.ravel(np.asarray(b, dtype=float))
    if a.shape != b.shape:
        return False
    return all(common.close(float(x), float(y), rel=rel, abs_=abs_) for x, y in zip(a, b))


def first_diff(a, b, rel, abs_=0.0):
    a, b = np.ravel(np.asarray(a, dtype=float)), np.ravel(np.asarray(b, dtype=float))
    if a.shape != b.shape:
        return "shape %s vs %s" % (a.shape, b.shape)
    for i, (x, y) in enumerate(zip(a, b)):
        if not common.close(float(x), float(y), rel=rel, abs_=abs_):
            return "entry %d: %r vs %r" % (i, float(x), float(y))
    return ""


# ---------------------------------------------------------------------------
# generators
# ---------------------------------------------------------------------------
def rand_rot(rng):
    q, r = np.linalg.qr(rng.normal(size=(3, 3)))
    q = q * np.sign(np.diag(r))
    if np.linalg.det(q) < 0:
        q[:, 0] = -q[:, 0]
    return q


def spread(p, frac=0.04):
    """principal values in ascending order (they used to be kept apart because of the NaN-drop defect F29,
    repaired by a902588; repeated values are generated on purpose now, kind "repeated")"""
    return np.sort(np.array(p, dtype=float))


def principal_kind(rng, kind, scale):
    if kind == "mixed":
        kind = rng.choice(["generic", "generic", "tensile", "cutoff", "nearcut", "compressive", "repeated"])
    if kind == "generic":
        p2 = rng.uniform(0.2, 1.0) * scale
        p = [rng.uniform(-1.5, 0.5) * p2, rng.uniform(-0.3, 0.9) * p2, p2]
    elif kind == "tensile":
        p2 = rng.uniform(0.2, 1.0) * scale
        p = [rng.uniform(0.0, 0.5) * p2, rng.uniform(0.3, 0.9) * p2, p2]
    elif kind == "cutoff":      # |pmin/pmax| > 3: removed by the CARES cut-off
        p2 = rng.uniform(0.05, 0.3) * scale
        p = [-rng.uniform(3.3, 8.0) * p2, rng.uniform(-1.0, 0.8) * p2, p2]
    elif kind == "nearcut":     # just below / above the threshold
        p2 = rng.uniform(0.1, 0.5) * scale
        p = [-rng.choice([2.9, 2.99, 3.01, 3.1]) * p2, rng.uniform(-1.0, 0.8) * p2, p2]
    elif kind == "repeated":    # two or three equal principal values (equibiaxial, axisymmetric, hydrostatic)
        a, b = rng.uniform(0.2, 1.0) * scale, rng.uniform(-0.5, 0.9) * rng.uniform(0.2, 1.0) * scale
        p = [[a, a, b], [a, b, b], [a, a, a]][int(rng.integers(3))]
    elif kind == "compressive":
        p2 = -rng.uniform(0.0, 0.3) * scale
        p = [p2 - rng.uniform(0.3, 1.0) * scale, p2 - rng.uniform(0.05, 0.3) * scale, p2]
    else:
        raise ValueError(kind)
    return spread(p)


def sym_to6(S):
    return [S[0, 0], S[1, 1], S[2, 2], S[1, 2], S[0, 2], S[0, 1]]


def six_to_sym(v):
    return np.array([[v[0], v[5], v[4]], [v[5], v[1], v[3]], [v[4], v[3], v[2]]], dtype=float)


def gen_history(rng, kind, nt, ne, nq, scale, proportional=False, noise=0.05):
    """stored components (nt, ne, nq, 6): mean tensor Q diag(p) Q^T with controlled principal values,
    quadrature points scattered around it with zero mean"""
    S = np.zeros((nt, ne, nq, 6))
    for e in range(ne):
        if proportional:
            Q, p = rand_rot(rng), principal_kind(rng, kind, scale)
            f = rng.uniform(0.1, 1.0, size=nt)
            f[rng.integers(nt)] = 1.0
        for t in range(nt):
            if proportional:
                M = f[t] * (Q @ np.diag(p) @ Q.T)
            else:
                Qt = rand_rot(rng)
                M = Qt @ np.diag(principal_kind(rng, kind, scale)) @ Qt.T
            M = 0.5 * (M + M.T)
            d = rng.normal(size=(nq, 3, 3)) * noise * scale * 0.1
            d = 0.5 * (d + np.transpose(d, (0, 2, 1)))
            d = d - d.mean(axis=0)
            for q in range(nq):
                S[t, e, q] = sym_to6(M + d[q])
    return S


def gen_geom(rng, dim=None, small=False):
    dim = int(dim or rng.choice([1, 2, 3]))
    nr = int(rng.integers(2, 4 if small else 5))
    nt = int(rng.integers(2, 4 if small else 5))
    nz = int(rng.integers(2, 4))
    ro = float(rng.uniform(4.0, 12.0))
    return dict(ro=ro, t=float(rng.uniform(0.1, 0.3) * ro), h=float(rng.uniform(5.0, 40.0)),
                nr=nr, nt=nt, nz=nz, dim=dim)


def gen_times(rng, kind):
    if kind == "zeros":
        return [0.0] * int(rng.integers(1, 4))
    n = int(rng.integers(2, 6))
    t = np.concatenate([[0.0], np.cumsum(rng.uniform(0.05, 4.0, size=n - 1))])
    if kind == "offset":
        t = t + float(rng.uniform(0.5, 3.0))
    return [float(x) for x in t]


def gen_tube_case(rng, times, kind="mixed", scale=120.0, dim=None, small=False, nq=None, mult=1, constT=None,
                  proportional=None):
    geom = gen_geom(rng, dim, small)
    ne, nt = nelem_of(geom), len(times)
    nq = int(nq or rng.integers(1, 4))
    prop = bool(rng.integers(2)) if proportional is None else proportional
    S = gen_history(rng, kind, nt, ne, nq, scale, proportional=prop)
    if constT is None:
        T = rng.uniform(TMIN, TMAX, size=(nt, ne, nq))
    else:
        T = np.full((nt, ne, nq), float(constT))
    return dict(geom=geom, times=[float(t) for t in times], S=S.tolist(), T=T.tolist(), mult=mult)


def rotate_case(tc, Qs):
    """the same physical stresses expressed in rotated axes (one rotation per element)"""
    S = np.array(tc["S"], dtype=float)
    out = np.zeros_like(S)
    nt, ne, nq = S.shape[:3]
    for e in range(ne):
        Q = np.array(Qs[e], dtype=float)
        for t in range(nt):
            for q in range(nq):
                out[t, e, q] = sym_to6(Q @ six_to_sym(S[t, e, q]) @ Q.T)
    tc2 = dict(tc)
    tc2["S"] = out.tolist()
    return tc2


def scale_case(tc, lam):
    tc2 = dict(tc)
    tc2["S"] = (np.array(tc["S"], dtype=float) * lam).tolist()
    return tc2


# ---------------------------------------------------------------------------
# property predicates on the real code.  Each takes a JSON-able dict and returns a list of failures.
# ---------------------------------------------------------------------------
def _mk(p):
    return make_model(p["model"], p.get("na"), p.get("nb"), p.get("cares", True))


def in_range(x):
    """log-reliability finite and <= 0, i.e. reliability = exp(.) in (0, 1] as a real number.  exp() of a
    log-reliability below -745 underflows to 0.0 in binary64 (seen at -2498 after scaling stresses by 3): that is
    the rounding of a positive number, not a reliability of zero, so it is not tested on the rounded value."""
    x = np.ravel(np.asarray(x, dtype=float))
    return bool(np.all(np.isfinite(x)) and np.all(x <= 0.0) and np.all(np.exp(x) <= 1.0))


def pred_rotation(p):
    mdl = _mk(p)
    a, ea = safe_run_tube(mdl, p["variant"], p["tube"], p["tot"])
    b, eb = safe_run_tube(mdl, p["variant"], rotate_case(p["tube"], p["Q"]), p["tot"])
    if ea or eb:
        return ["%s raised: %s" % (MCLASS[p["model"]], ea or eb)]
    bad = []
    if not in_range(a["elem"]):
        bad.append("element log-reliability outside (-inf, 0]: %r" % a["elem"][:4].tolist())
    d = first_diff(a["elem"], b["elem"], REL_ROT)
    if d:
        bad.append("element log-reliability changes under rotation of the axes (%s) %s" % (MCLASS[p["model"]], d))
    return bad


def pred_compressive(p):
    mdl = _mk(p)
    a, ea = safe_run_tube(mdl, p["variant"], p["tube"], p["tot"])
    if ea:
        return ["%s raised: %s" % (MCLASS[p["model"]], ea)]
    e = a["elem"]
    if not (np.all(e <= 0.0) and np.all(e >= -1e-100)):
        i = int(np.argmax(np.abs(e)))
        return ["purely compressive state has log-reliability %r (element entry %d), not 0 (%s)" % (float(e[i]), i, MCLASS[p["model"]])]
    return []


def pred_scale(p):
    mdl = _mk(p)
    a, ea = safe_run_tube(mdl, p["variant"], p["tube"], p["tot"])
    b, eb = safe_run_tube(mdl, p["variant"], scale_case(p["tube"], p["lam"]), p["tot"])
    if ea or eb:
        return ["%s raised: %s" % (MCLASS[p["model"]], ea or eb)]
    bad = []
    for i, (x, y) in enumerate(zip(a["elem"], b["elem"])):
        if not (y <= x + 1e-12 * abs(x)):
            bad.append("stresses scaled by %g raise element %d log-reliability from %r to %r (%s)" % (p["lam"], i, float(x), float(y), MCLASS[p["model"]]))
            break
    if not in_range(b["elem"]):
        bad.append("element log-reliability outside (-inf, 0]")
    return bad


def pred_time(p):
    mdl = _mk(p)
    a, ea = safe_run_tube(mdl, p["variant"], p["tube"], p["tot"])
    b, eb = safe_run_tube(mdl, p["variant"], p["tube"], p["tot2"])
    if ea or eb:
        return ["%s raised: %s" % (MCLASS[p["model"]], ea or eb)]
    for i, (x, y) in enumerate(zip(a["elem"], b["elem"])):
        if not (y <= x + 1e-12 * abs(x)):
            return ["service time %g -> %g raises element %d log-reliability from %r to %r (%s)" % (p["tot"], p["tot2"], i, float(x), float(y), MCLASS[p["model"]])]
    return []


def pred_volume(p):
    mdl = _mk(p)
    tc2 = json.loads(json.dumps(p["tube"]))
    tc2["geom"]["h"] = p["tube"]["geom"]["h"] * p["c"]
    a, ea = safe_run_tube(mdl, p["variant"], p["tube"], p["tot"])
    b, eb = safe_run_tube(mdl, p["variant"], tc2, p["tot"])
    if ea or eb:
        return ["%s raised: %s" % (MCLASS[p["model"]], ea or eb)]
    bad = []
    if not allclose(a["volumes"] * p["c"], b["volumes"], 1e-12):
        bad.append("element volumes are not proportional to the tube height")
    nrep = a["elem"].size // a["volumes"].size
    va, vb = np.tile(a["volumes"], nrep), np.tile(b["volumes"], nrep)
    d = first_diff(a["elem"] / va, b["elem"] / vb, 1e-11)
    if d:
        bad.append("log-reliability / volume changes with the volume (%s) %s" % (MCLASS[p["model"]], d))
    return bad


def pred_uniaxial(p):
    """PIA, uniaxial tension sigma along direction n, constant temperature: log R = -V k sigma^m"""
    mdl = _mk(p)
    a, ea = safe_run_tube(mdl, p["variant"], p["tube"], p["tot"])
    if ea:
        return ["%s raised: %s" % (MCLASS[p["model"]], ea)]
    mat = material(p["variant"])
    s, m = float(mat.strength(p["T"])), float(mat.modulus(p["T"]))
    sig = np.array(p["sigma"], dtype=float)           # (nt, ne)
    V = a["volumes"]
    if all(t == 0.0 for t in p["tube"]["times"]):
        want = np.ravel(-(sig / s) ** m * V[None, :])
    else:                                              # service time 0: peak stress of the cycle
        want = -(np.max(sig, axis=0) / s) ** m * V
    d = first_diff(a["elem"], want, 1e-9)
    return ["uniaxial tension: log R != -V (sigma/sigma0)^m (%s) %s" % (MCLASS[p["model"]], d)] if d else []


def pred_power(p):
    """zero service time: log R(lam sigma) = lam^m log R(sigma)"""
    mdl = _mk(p)
    a, ea = safe_run_tube(mdl, p["variant"], p["tube"], 0.0)
    b, eb = safe_run_tube(mdl, p["variant"], scale_case(p["tube"], p["lam"]), 0.0)
    if ea or eb:
        return ["%s raised: %s" % (MCLASS[p["model"]], ea or eb)]
    mat = material(p["variant"])
    T = np.mean(np.array(p["tube"]["T"], dtype=float), axis=-1)
    mavg = np.mean(mat.modulus(T), axis=0)           # (ne,)
    nrep = a["elem"].size // mavg.size
    fac = np.tile(p["lam"] ** mavg, nrep)
    d = first_diff(b["elem"], a["elem"] * fac, 1e-9)
    return ["zero service time: log R(%g sigma) != %g^m log R(sigma) (%s) %s" % (p["lam"], p["lam"], MCLASS[p["model"]], d)] if d else []


def build_receiver(panels):
    from srlife import receiver
    rec = receiver.Receiver(24.0, 1, "disconnect")
    tubes = []
    for pn in panels:
        pan = receiver.Panel("disconnect")
        for tc in pn:
            tb = build_tube(tc)
            pan.add_tube(tb)
            tubes.append(tb)
        rec.add_panel(pan)
    return rec, tubes


def run_receiver(mdl, variant, panels, tot):
    rec, tubes = build_receiver(panels)
    with warnings.catch_warnings():
        warnings.simplefilter("ignore")
        out = mdl.determine_reliability(rec, material(variant), tot, nthreads=1)
    fields = [np.array(t.quadrature_results["log_reliability"]) for t in tubes]
    return {k: np.atleast_1d(np.array(v, dtype=float)) for k, v in out.items()}, fields


def pred_aggregate(p):
    """panel = prod tube^multiplier over the panel's own tubes, overall = prod panel; tube = exp(min over
    time of the tube series); everything in (0, 1]"""
    mdl = _mk(p)
    try:
        out, fields = run_receiver(mdl, p["variant"], p["panels"], p["tot"])
    except Exception as e:
        return ["determine_reliability raised %s: %s (panel sizes %s)" % (type(e).__name__, e, [len(x) for x in p["panels"]])]
    bad = []
    tubes = [tc for pn in p["panels"] for tc in pn]
    tr, pr, ov = out["tube_reliability"], out["panel_reliability"], out["overall_reliability"]
    if tr.shape != (len(tubes),) or pr.shape != (len(p["panels"]),) or ov.shape != (1,):
        return ["result shapes %s %s %s for panel sizes %s" % (tr.shape, pr.shape, ov.shape, [len(x) for x in p["panels"]])]
    for nm, v in (("tube", tr), ("panel", pr), ("overall", ov)):
        # exactly 0.0 is the binary64 rounding of exp(log R) for log R < -745 (a hopelessly overloaded tube), see
        # in_range(); that the value IS exp(log-reliability) is checked below
        if not (np.all(np.isfinite(v)) and np.all(v >= 0.0) and np.all(v <= 1.0)):
            bad.append("%s reliability outside (0,1]: %r" % (nm, v.tolist()))
    k = 0
    for i, pn in enumerate(p["panels"]):
        want = 1.0
        for tc in pn:
            want *= tr[k] ** tc.get("mult", 1)
            k += 1
        if not common.close(float(pr[i]), float(want), rel=1e-10, abs_=0.0):
            bad.append("panel %d reliability %r is not the product of its tubes' reliabilities raised to their multipliers %r (sizes %s, multipliers %s)" % (
                i, float(pr[i]), float(want), [len(x) for x in p["panels"]], [tc.get("mult", 1) for tc in tubes]))
    if not common.close(float(ov[0]), float(np.prod(pr)), rel=1e-10, abs_=0.0):
        bad.append("overall reliability %r is not the product of the panel reliabilities %r" % (float(ov[0]), float(np.prod(pr))))
    # tube value = exp(min over time of its own series), computed by the same object directly
    for j, tc in enumerate(tubes):
        a, ea = safe_run_tube(mdl, p["variant"], tc, p["tot"])
        if ea:
            bad.append("tube_log_reliability raised: " + ea)
            break
        if not common.close(float(tr[j]), float(np.exp(np.min(a["series"]))), rel=1e-10, abs_=0.0):
            bad.append("tube %d reliability %r != exp(min over time of its log-reliability %r)" % (j, float(tr[j]), float(np.min(a["series"]))))
        if not common.close(float(np.min(a["series"])), float(np.sum(a["elem"])), rel=1e-10, abs_=0.0):
            bad.append("tube %d log-reliability %r is not the sum of its element entries %r" % (j, float(np.min(a["series"])), float(np.sum(a["elem"]))))
        if fields[j].shape[0] != len(tc["times"]) or not allclose(fields[j][0, :, 0], a["elem"], 1e-12):
            bad.append("tube %d: stored log_reliability field differs from the element values" % j)
    return bad


PREDS = {"rotation": pred_rotation, "compressive": pred_compressive, "scale": pred_scale, "time": pred_time,
         "volume": pred_volume, "uniaxial": pred_uniaxial, "power": pred_power, "aggregate": pred_aggregate}


# ---------------------------------------------------------------------------
# correspondence
# ---------------------------------------------------------------------------
def corr_tube(name, variant, cares, na, nb, tc, tot):
    """run the real tube with recorders; returns (line, real results) or raises"""
    mdl = make_model(name, na if not (na is None) else None, nb, cares)
    rr = run_tube(mdl, variant, tc, tot, record=True)
    return tube_line(name, cares, mdl.nalpha, mdl.nbeta, tc, variant, rr), rr


def compare_tube(rr, ans):
    """model answer vs recorded real run -> list of differences"""
    parts = ans.split(";")
    if len(parts) != 4:
        return ["model answer malformed: %s" % ans[:80]]
    el, se, tl, te = unbits(parts[0]), unbits(parts[1]), unbits(parts[2]), unbits(parts[3])
    bad = []
    d = first_diff(rr["elem"], el, REL)
    if d:
        bad.append("calculate_element_log_reliability vs model: " + d)
    d = first_diff(rr["series"], se, REL)
    if d:
        bad.append("tube_log_reliability series vs model: " + d)
    d = first_diff([np.min(rr["series"])], tl, REL)
    if d:
        bad.append("min over time vs model tubeLog: " + d)
    a = rr["tensor"]
    real6 = np.stack([a[..., 0, 0], a[..., 1, 1], a[..., 2, 2], a[..., 1, 2], a[..., 0, 2], a[..., 0, 1]], axis=-1)
    scale = max(1.0, float(np.max(np.abs(real6))))
    d = first_diff(real6, te, 1e-13, 1e-13 * scale)
    if d:
        bad.append("tensor handed to eigvalsh vs model toTensor(assemble(stored)): " + d)
    if not (np.array_equal(a[..., 1, 2], a[..., 2, 1]) and np.array_equal(a[..., 0, 2], a[..., 2, 0]) and np.array_equal(a[..., 0, 1], a[..., 1, 0])):
        bad.append("tensor handed to eigvalsh is not symmetric")
    return bad


def corr_replay(p):
    """re-run one correspondence case: real code vs Lean model"""
    drv = common.LeanDriver(["SrModel.Ceramic"])
    out = []
    tube_logs, real_logs = [], []
    for tc in [t for pn in p["panels"] for t in pn]:
        try:
            line, rr = corr_tube(p["model"], p["variant"], p["cares"], p.get("na"), p.get("nb"), tc, p["tot"])
        except Exception as e:
            return ["real code raised %s: %s" % (type(e).__name__, e)]
        ans = drv.ask([line])[0]
        out += compare_tube(rr, ans)
        tube_logs.append(unbits(ans.split(";")[2])[0] if ans.count(";") == 3 else float("nan"))
        real_logs.append(float(np.min(rr["series"])))
    print("  real tube log-reliabilities :", real_logs)
    print("  model tube log-reliabilities:", [float(x) for x in tube_logs])
    try:
        real, _ = run_receiver(_mk(p), p["variant"], p["panels"], p["tot"])
    except Exception as e:
        return out + ["determine_reliability raised %s: %s" % (type(e).__name__, e)]
    out += compare_agg(p["panels"], tube_logs, real, drv)
    return out


def agg_line(panels, tube_logs):
    sizes = ",".join(str(len(pn)) for pn in panels)
    mults = bits([tc.get("mult", 1) for pn in panels for tc in pn])
    return "c05agg %s %s %s" % (sizes, mults, bits(tube_logs))


def compare_agg_answer(real, ans):
    parts = ans.split(";")
    if len(parts) != 5:
        return ["model answer malformed: %s" % ans[:80]]
    bad = []
    for nm, got in (("tube_reliability", unbits(parts[2])), ("panel_reliability", unbits(parts[3])),
                    ("overall_reliability", unbits(parts[4]))):
        d = first_diff(real[nm], got, REL)
        if d:
            bad.append("determine_reliability %s vs model: %s" % (nm, d))
    return bad


def compare_agg(panels, tube_logs, real, drv):
    return compare_agg_answer(real, drv.ask([agg_line(panels, tube_logs)])[0])


def grid_check(drv, ctx):
    """orientation grids of real model objects vs the model's mkGrid"""
    sizes = [("PIA", None, None), ("MTSG", None, None), ("WNTSA", 5, 7), ("CSEP", 6, 4), ("SMMG", 2, 9)]
    lines, objs = [], []
    for name, na, nb in sizes:
        m = make_model(name, na, nb)
        objs.append((name, m))
        lines.append("c05grid %d %d %d" % (1 if INDEP[name] else 0, m.nalpha, m.nbeta))
    bad = []
    for (name, m), ans in zip(objs, drv.ask(lines)):
        parts = ans.split(";")
        got = [unbits(x) for x in parts]
        want = [[m.dalpha], [m.dbeta], m.A, m.l, m.m, m.n]
        for nm, g, w in zip(["dalpha", "dbeta", "A", "l", "m", "n"], got, want):
            d = first_diff(w, g, 1e-15, 1e-15)
            if d:
                bad.append("%s %dx%d %s: %s" % (name, m.nalpha, m.nbeta, nm, d))
        ctx.case(("grid", name, m.nalpha, m.nbeta), nontrivial=True, tag="grid")
    return bad


PANEL_SHAPES = [[1], [2], [1, 1], [2, 1], [1, 2], [3], [1, 1, 1]]


def gen_receiver_case(rng, name, quick, full_grid=False):
    variant = str(rng.choice(variants()))
    tkind = str(rng.choice(["zeros", "real", "real", "offset"]))
    times = gen_times(rng, tkind)
    tot = float(rng.choice([0.0, 1.0, 50.0, 1.0e3, 1.0e4, 1.0e5]))
    cares = bool(rng.random() < 0.8)
    if INDEP[name]:
        na, nb = (None, None) if (name == "PIA" or rng.random() < 0.5) else (int(rng.integers(3, 12)), int(rng.integers(3, 14)))
    else:
        na, nb = (None, None) if full_grid else (int(rng.integers(3, 14)), int(rng.integers(3, 14)))
    shape = PANEL_SHAPES[int(rng.integers(len(PANEL_SHAPES)))]
    if full_grid:
        shape = [1]
    panels = []
    for n in shape:
        pn = []
        for _ in range(n):
            mult = int(rng.choice([1, 1, 2, 3, 7]))
            pn.append(gen_tube_case(rng, times, kind="mixed", scale=float(rng.uniform(60.0, 160.0)),
                                    dim=(1 if full_grid else None), small=True, mult=mult))
        panels.append(pn)
    return dict(model=name, variant=variant, cares=cares, na=na, nb=nb, tot=tot, panels=panels, tkind=tkind)


def correspondence(ctx, drv, rng):
    quick = ctx.quick()
    per_model = 8 if quick else 40
    cases = []
    for name, _, _ in MODELS:
        for i in range(per_model):
            cases.append(gen_receiver_case(rng, name, quick))
    for name in [m[0] for m in MODELS if not m[2]] * (1 if quick else 3):
        cases.append(gen_receiver_case(rng, name, quick, full_grid=True))   # default 121 x 121 grid
    lines, recs, owners, crashed = [], [], [], []
    for ci, c in enumerate(cases):
        for tc in [t for pn in c["panels"] for t in pn]:
            try:
                line, rr = corr_tube(c["model"], c["variant"], c["cares"], c["na"], c["nb"], tc, c["tot"])
            except Exception as e:
                crashed.append((ci, "%s: %s" % (type(e).__name__, e)))
                break
            lines.append(line)
            recs.append(rr)
            owners.append(ci)
    answers = drv.ask(lines)
    mism = {}
    tube_logs = {}
    for ci, rr, ans in zip(owners, recs, answers):
        c = cases[ci]
        bad = compare_tube(rr, ans)
        ti = "zeros" if all(t == 0.0 for t in c["panels"][0][0]["times"]) else "timedep"
        nontrivial = bool(np.any(rr["elem"] < 0.0))
        ctx.case(("tube", ci, len(tube_logs.get(ci, []))), nontrivial=nontrivial,
                 tag="tube/%s/%s/%s" % (c["model"], ti, "cut" if c["cares"] else "nocut"),
                 sample={"model": c["model"], "variant": c["variant"], "times": c["panels"][0][0]["times"], "tot": c["tot"],
                         "real_tube_logR": float(np.min(rr["series"])), "model_answer": ans.split(";")[2]})
        if bad:
            mism.setdefault(ci, []).extend(bad)
        tube_logs.setdefault(ci, []).append(unbits(ans.split(";")[2])[0] if ans.count(";") == 3 else float("nan"))
    # aggregation through the real pool
    agg_lines, agg_owner, reals = [], [], {}
    crashed_ci = {ci for ci, _ in crashed}
    for ci, c in enumerate(cases):
        if ci in crashed_ci:
            continue
        try:
            reals[ci], _ = run_receiver(_mk(c), c["variant"], c["panels"], c["tot"])
        except Exception as e:
            crashed.append((ci, "determine_reliability %s: %s" % (type(e).__name__, e)))
            continue
        agg_lines.append(agg_line(c["panels"], tube_logs[ci]))
        agg_owner.append(ci)
    for ci, ans in zip(agg_owner, drv.ask(agg_lines)):
        bad = compare_agg_answer(reals[ci], ans)
        c = cases[ci]
        ctx.case(("recv", ci), nontrivial=len(c["panels"]) > 1 or len(c["panels"][0]) > 1,
                 tag="receiver/panels=%s" % "+".join(str(len(p)) for p in c["panels"]))
        if bad:
            mism.setdefault(ci, []).extend(bad)
    return cases, mism, crashed


# ---------------------------------------------------------------------------
# metamorphic search
# ---------------------------------------------------------------------------
def metamorphic(ctx, rng):
    quick = ctx.quick()
    n = 6 if quick else 30
    jobs = []
    vs = variants()
    for dim, mesh in ((2, [4, 12, 2]), (3, [3, 8, 3])):
        jobs.append(dict(pred="solved_ring", signature="c05:solved-ring", model="PIA", variant="base", cares=True, tot=0.0,
                         dim=dim, mesh=mesh, ro=10.0, t=1.5, h=6.0, p=float(rng.uniform(20.0, 60.0))))
    for name, _, indep in MODELS:
        for i in range(n):
            variant = vs[i % len(vs)]
            tk = ["zeros", "real", "offset"][i % 3]
            times = gen_times(rng, tk)
            tot = float(rng.choice([0.0, 10.0, 1.0e3, 1.0e5]))
            base = dict(model=name, variant=variant, cares=bool(i % 4 != 3), tot=tot)
            # rotation of the stored tensors (general rotation per element; one case about the tube axis)
            tc = gen_tube_case(rng, times, kind="mixed", scale=float(rng.uniform(60, 150)), dim=[1, 2, 3][i % 3], small=True)
            ne = nelem_of(tc["geom"])
            if i % 3 == 1:
                Qs = []
                for e in range(ne):
                    th = rng.uniform(0, 2 * np.pi)
                    Qs.append([[math.cos(th), -math.sin(th), 0.0], [math.sin(th), math.cos(th), 0.0], [0.0, 0.0, 1.0]])
            else:
                Qs = [rand_rot(rng).tolist() for _ in range(ne)]
            jobs.append(dict(base, pred="rotation", tube=tc, Q=Qs))
            # scale-up and longer service
            tc = gen_tube_case(rng, times, kind="mixed", scale=float(rng.uniform(40, 110)), small=True)
            jobs.append(dict(base, pred="scale", tube=tc, lam=float(rng.choice([1.0, 1.0 + 1e-6, 1.3, 2.0, 3.0]))))
            jobs.append(dict(base, pred="time", tube=tc, tot2=float(tot + rng.choice([0.0, 1.0, 1.0e3, 1.0e5]))))
            jobs.append(dict(base, pred="volume", tube=tc, c=float(rng.choice([0.5, 2.0, 3.7]))))
            # zero service time power law
            tc = gen_tube_case(rng, times, kind=str(rng.choice(["generic", "tensile", "mixed"])), scale=float(rng.uniform(40, 110)), small=True)
            jobs.append(dict(base, pred="power", tube=tc, tot=0.0, lam=float(rng.choice([0.5, 1.7, 2.0, 3.0]))))
            if indep:
                tc = gen_tube_case(rng, times, kind="compressive", scale=float(rng.uniform(50, 400)), small=True)
                jobs.append(dict(base, pred="compressive", tube=tc))
        # aggregation: ragged panels, multipliers
        for i in range(3 if quick else 10):
            c = gen_receiver_case(rng, name, quick)
            if i == 0:
                while len(c["panels"]) < 2 or len(set(len(p) for p in c["panels"])) < 2:
                    c = gen_receiver_case(rng, name, quick)       # ragged
            c["na"] = c["nb"] = None
            jobs.append(dict(model=name, variant=c["variant"], cares=c["cares"], tot=c["tot"], pred="aggregate", panels=c["panels"]))
    # PIA uniaxial law (time independent branch and service time 0)
    for i in range(12 if quick else 60):
        variant = vs[i % len(vs)]
        times = gen_times(rng, ["zeros", "real"][i % 2])
        T = float(rng.uniform(TMIN, TMAX))
        geom = gen_geom(rng, small=True)
        ne, nt = nelem_of(geom), len(times)
        sig = rng.uniform(5.0, 200.0, size=(nt, ne))
        S = np.zeros((nt, ne, 1, 6))
        for e in range(ne):
            nvec = rng.normal(size=3)
            nvec /= np.linalg.norm(nvec)
            if i % 3 == 0:
                nvec = np.eye(3)[e % 3]
            for t in range(nt):
                S[t, e, 0] = sym_to6(sig[t, e] * np.outer(nvec, nvec))
        tc = dict(geom=geom, times=times, S=S.tolist(), T=np.full((nt, ne, 1), T).tolist(), mult=1)
        jobs.append(dict(model="PIA", variant=variant, cares=bool(i % 2), tot=0.0, pred="uniaxial", tube=tc, T=T, sigma=sig.tolist()))
    jobs += special_jobs(rng, quick)
    fails = []
    for j in jobs:
        with warnings.catch_warnings():
            warnings.simplefilter("ignore")
            bad = PREDS[j["pred"]](j)
        ctx.case(("meta", j["pred"], j["model"], len(fails), ctx.evals), nontrivial=True, tag="meta/%s/%s" % (j["pred"], j["model"]))
        if bad:
            fails.append((j, bad))
    return jobs, fails


def pred_repeated(p):
    """Batdorf model, repeated principal values (equibiaxial, hydrostatic, axisymmetric states): the state given
    as a diagonal tensor and in rotated frames must give the same element log-reliability (1e-8 relative).
    (Before a902588 sqrt(sigma^2 - sigma_n^2) was NaN from rounding on some orientations and np.nansum
    dropped them: 0.2-5 % spread.)"""
    mdl = _mk(p)
    geom = dict(ro=10.0, t=1.0, h=10.0, nr=2, nt=2, nz=2, dim=1)
    vals = []
    for Q in p["Qs"]:
        Q = np.array(Q, dtype=float)
        S = np.array(sym_to6(Q @ np.diag(p["principal"]) @ Q.T)).reshape(1, 1, 1, 6)
        tc = dict(geom=geom, times=[0.0], S=S.tolist(), T=[[[1000.0]]], mult=1)
        a, ea = safe_run_tube(mdl, p["variant"], tc, 0.0)
        if ea:
            return ["%s raised: %s" % (MCLASS[p["model"]], ea)]
        vals.append(float(a["elem"][0]))
    v = np.array(vals)
    if not np.all(np.isfinite(v)) or not np.all(v < 0):
        return ["principal values %s: element log-reliability %s (%s)" % (p["principal"], vals, MCLASS[p["model"]])]
    spread = float((np.max(v) - np.min(v)) / np.max(np.abs(v)))
    if not spread <= REL_ROT:
        return ["principal values %s in %d frames (first is the diagonal one): element log-reliability varies by %.3g relative (%s): %s" % (
            p["principal"], len(vals), spread, MCLASS[p["model"]], ["%.9g" % x for x in vals])]
    return []


def uniaxial_ratios(p):
    """log R / (-V (sigma/sigma0)^m) for uniaxial tension along each coordinate axis, through the tube"""
    mdl = _mk(p)
    geom = dict(ro=10.0, t=1.0, h=10.0, nr=2, nt=2, nz=2, dim=1)
    mat = material(p["variant"])
    s, m = float(mat.strength(p["T"])), float(mat.modulus(p["T"]))
    ratios = []
    for ax in range(3):
        d = [0.0, 0.0, 0.0]
        d[ax] = p["sigma"]
        S = np.array(sym_to6(np.diag(d))).reshape(1, 1, 1, 6)
        tc = dict(geom=geom, times=[0.0], S=S.tolist(), T=[[[p["T"]]]], mult=1)
        a, ea = safe_run_tube(mdl, p["variant"], tc, 0.0)
        ratios.append(float(a["elem"][0] / (-(p["sigma"] / s) ** m * a["volumes"][0])) if a else float("nan"))
    return ratios


def pred_uniaxial_any(p):
    """any model, uniaxial tension along a coordinate axis: log R / (-V (sigma/sigma0)^m) within the
    quadrature accuracy `tol` of 1"""
    ratios = uniaxial_ratios(p)
    if not all(abs(r - 1.0) <= p["tol"] for r in ratios):
        return ["uniaxial tension %g: log R / (-V (sigma/sigma0)^m) = %s, not within %g of 1 (%s)" % (
            p["sigma"], ["%.6f" % r for r in ratios], p["tol"], MCLASS[p["model"]])]
    return []


def pred_uniaxial_polar(p):
    """Batdorf model, uniaxial tension along the polar axis of its own orientation grid (the principal triple
    (sigma, 0, 0) paired with l = cos A: `eigvalsh` is replaced by "take the diagonal" for this call), kbar from
    the same grid: log R = -V (sigma/sigma0)^m exactly (1e-9) -- theorem batdorf_uniaxial"""
    from srlife import damage
    mdl = _mk(p)
    mat = material(p["variant"])
    s, m = float(mat.strength(p["T"])), float(mat.modulus(p["T"]))

    class LA:
        def __getattr__(self, name):
            return getattr(np.linalg, name)

        def eigvalsh(self, a, *args, **kw):
            return np.stack([a[..., 0, 0], a[..., 1, 1], a[..., 2, 2]], axis=-1)

    saved = damage.la
    damage.la = LA()
    try:
        out = mdl.calculate_element_log_reliability(np.zeros(1), np.array([[[p["sigma"], 0.0, 0.0, 0.0, 0.0, 0.0]]]),
                                                    np.array([[p["T"]]]), np.array([p["V"]]), mat, 0.0)
    except Exception as e:
        return ["%s raised: %s: %s" % (MCLASS[p["model"]], type(e).__name__, e)]
    finally:
        damage.la = saved
    got, want = float(np.ravel(out)[0]), -(p["sigma"] / s) ** m * p["V"]
    if not common.close(got, want, rel=1e-9, abs_=0.0):
        return ["uniaxial tension %g along the polar axis of the model's grid (%dx%d): log R = %r, uniaxial Weibull law -V (sigma/sigma0)^m = %r, ratio %.6f (%s)" % (
            p["sigma"], mdl.nalpha, mdl.nbeta, got, want, got / want, MCLASS[p["model"]])]
    return []


def pred_uniaxial_gradient(p):
    """uniaxial tension in a tube whose elements are at different temperatures, material with a temperature-
    dependent Weibull modulus and strength: every element follows the uniaxial law AT ITS OWN temperature:
    log R_e / (-V_e (sigma/sigma0(T_e))^m(T_e)) within the quadrature accuracy `tol` of 1"""
    mdl = _mk(p)
    mat = material(p["variant"])
    Ts = p["Ts"]
    geom = dict(ro=10.0, t=1.0, h=10.0, nr=len(Ts) + 1, nt=2, nz=2, dim=1)
    S = np.zeros((1, len(Ts), 1, 6))
    S[..., 2] = p["sigma"]
    tc = dict(geom=geom, times=[0.0], S=S.tolist(), T=[[[T] for T in Ts]], mult=1)
    a, ea = safe_run_tube(mdl, p["variant"], tc, 0.0)
    if ea:
        return ["%s raised: %s" % (MCLASS[p["model"]], ea)]
    ratios = []
    for e, T in enumerate(Ts):
        s_, m_ = float(mat.strength(T)), float(mat.modulus(T))
        ratios.append(float(a["elem"][e] / (-(p["sigma"] / s_) ** m_ * a["volumes"][e])))
    if not all(abs(r - 1.0) <= p["tol"] for r in ratios):
        return ["uniaxial tension %g, element temperatures %s, m(T) = %s: log R_e / (-V_e (sigma/sigma0(T_e))^m(T_e)) = %s, not within "
                "%g of 1 (%s)" % (p["sigma"], Ts, ["%.2f" % float(mat.modulus(T)) for T in Ts], ["%.4f" % r for r in ratios], p["tol"], MCLASS[p["model"]])]
    return []


def pred_solved_ring(p):
    """a tube solved by the REAL structural stage (2-D or 3-D, elastic SiC, internal pressure, uniform temperature:
    an axisymmetric problem): the element log-reliabilities, taken in the order of Tube.element_volumes() (radial
    layer outermost), are equal round every ring, and log R_e / V_e is a function of the ring only"""
    from srlife import receiver, structural, spring, library
    mdl = _mk(p)
    nr, nt, nz = p["mesh"]
    tube = receiver.Tube(p["ro"], p["t"], p["h"], nr, nt, nz)
    if p["dim"] == 2:
        tube.make_2D(p["h"] / 2)
    times = np.array([0.0, 1.0])
    tube.set_times(times)
    tube.set_pressure_bc(receiver.PressureBC(times, np.array([0.0, p["p"]])))
    tube.add_results("temperature", np.full((2,) + tube.dim[:tube.ndim], 800.0))
    dmat = library.load_deformation("SiC", "elastic_model").get_neml_model()
    sp = spring.TubeSpring(tube, structural.PythonTubeSolver(verbose=False), dmat)
    sp.force_and_stiffness(1, 0.0)
    sp.update_state(1)
    try:
        series, field = mdl.tube_log_reliability(tube, material(p["variant"]), FakeReceiver(), 0.0)
    except Exception as e:
        return ["tube_log_reliability on a solved %dD tube raised %s: %s" % (p["dim"], type(e).__name__, e)]
    vols = np.asarray(tube.element_volumes(), dtype=float)
    e = np.asarray(field, dtype=float)
    e = e[0, :, 0] if e.ndim == 3 else e.reshape(-1)      # (ntime, nelem, 2): the element values, repeated
    if e.shape != vols.shape:
        return ["solved %dD tube: %d element log-reliabilities for %d element volumes" % (p["dim"], e.size, vols.size)]
    per = (e / vols).reshape(nr - 1, -1)           # element_volumes order: radial layer i outermost
    spread = float(np.max(np.max(per, axis=1) - np.min(per, axis=1)))
    scale = float(np.max(np.abs(per))) + 1e-300
    if spread > 1e-6 * scale:
        worst = int(np.argmax(np.max(per, axis=1) - np.min(per, axis=1)))
        return ["solved %dD tube (nr=%d nt=%d nz=%d, p=%g): log R_e / V_e varies round radial layer %d by %.3g relative (values %s): the "
                "element log-reliabilities do not belong to the elements whose volumes they were multiplied with (%s)" % (
                    p["dim"], nr, nt, nz, p["p"], worst, spread / scale, ["%.4g" % x for x in per[worst][:6]], MCLASS[p["model"]])]
    return []


PREDS["solved_ring"] = pred_solved_ring
PREDS["uniaxial_gradient"] = pred_uniaxial_gradient
PREDS["repeated"] = pred_repeated
PREDS["uniaxial_any"] = pred_uniaxial_any
PREDS["uniaxial_polar"] = pred_uniaxial_polar


def fixed_rot(axis, angle):
    """Rodrigues rotation (deterministic frames of the repeated-value predicate)"""
    k = np.array(axis, dtype=float)
    k /= np.linalg.norm(k)
    K = np.array([[0, -k[2], k[1]], [k[2], 0, -k[0]], [-k[1], k[0], 0]])
    return np.eye(3) + math.sin(angle) * K + (1 - math.cos(angle)) * (K @ K)


def special_jobs(rng, quick):
    """uniaxial laws for every model, repeated principal values for the Batdorf models"""
    jobs = []
    vs = variants()
    for name, _, indep in MODELS:
        for k in range(len(vs) if not quick else 1):
            variant = vs[(k + len(name)) % len(vs)]
            jobs.append(dict(pred="uniaxial_any", signature="c05:uniaxial:" + name, model=name, variant=variant, cares=True,
                             tot=0.0, sigma=float(rng.uniform(40.0, 150.0)), T=float(rng.uniform(TMIN, TMAX)), tol=0.05))
        jobs.append(dict(pred="uniaxial_gradient", signature="c05:uniaxial:" + name, model=name, variant="tdep", cares=True, tot=0.0,
                         sigma=float(rng.uniform(60.0, 120.0)), Ts=[500.0, 900.0, 1300.0], tol=0.06))
        if indep:
            continue
        for k, variant in enumerate(vs):
            na, nb = (None, None) if k == 0 else (int(rng.integers(3, 40)), int(rng.integers(2, 40)))
            jobs.append(dict(pred="uniaxial_polar", signature="c05:uniaxial:" + name, model=name, variant=variant, cares=bool(k % 2 == 0),
                             na=na, nb=nb, tot=0.0, sigma=float(rng.uniform(40.0, 150.0)), T=float(rng.uniform(TMIN, TMAX)),
                             V=float(rng.uniform(0.5, 20.0))))
        # equibiaxial, hydrostatic, axisymmetric tube wall (hoop = axial, small radial compression)
        for principal in ([100.0, 100.0, 0.0], [100.0, 100.0, 100.0], [80.0, 80.0, -5.0]):
            Qs = [np.eye(3), fixed_rot([1, 2, 3], 0.7), fixed_rot([0, 0, 1], 0.3), fixed_rot([3, -1, 2], 1.9), rand_rot(rng), rand_rot(rng)]
            jobs.append(dict(pred="repeated", signature="c05:repeated-principal-values", model=name, variant=vs[0], cares=True, tot=0.0,
                             principal=principal, Qs=[np.array(Q).tolist() for Q in Qs]))
    return jobs


def size_of(j):
    return len(json.dumps(j))


# ---------------------------------------------------------------------------
# element volumes: real `Tube.element_volumes()` vs SrModel.Volume, and the closed forms of
# SrProps.C05.volume1d_total / volume2d_closed_form / volume2d_total / volume3d_total / volume_pos /
# volume_linear_in_height evaluated on the real values alone
# ---------------------------------------------------------------------------
REL_VOL = 1e-12        # model vs code, totals vs closed forms, linearity in h
REL_VOL_ELEM = 1e-11   # single element vs its closed form (r[i+1]^2 - r[i]^2 cancels ~ ro/(2 edge) ulps)


def real_volumes(g, h=None):
    """the real `element_volumes()` of the tube described by g (after make_1D / make_2D as needed)"""
    from srlife import receiver
    h = g["h"] if h is None else h
    tube = receiver.Tube(g["ro"], g["t"], h, g["nr"], g["nt"], g["nz"])
    if g["dim"] == 1:
        tube.make_1D(h / 2, 0.25)
    elif g["dim"] == 2:
        tube.make_2D(h / 2)
    return np.ravel(np.asarray(tube.element_volumes(), dtype=float))


def vol_line(g):
    return "vol %d %d %d %d %d %d %d %d" % (g["dim"], common.f2bits(g["ro"]), common.f2bits(g["t"]), common.f2bits(g["h"]),
                                            g["nr"], g["nt"], g["nz"], common.f2bits(np.pi))


def gen_vol_geom(rng, k):
    """random tube; the first cases sit on the boundaries of the theorem hypotheses (nr = 2, nt = 3, nz = 2,
    thin and thick walls)"""
    dim = [1, 2, 3][k % 3]
    ro = float(rng.uniform(2.0, 40.0))
    g = dict(dim=dim, ro=ro, t=float(rng.uniform(0.05, 0.6) * ro), h=float(rng.uniform(0.5, 60.0)),
             nr=int(rng.integers(2, 9)), nt=int(rng.integers(3, 13)), nz=int(rng.integers(2, 7)))
    if k < 3:
        g.update(nr=2, nt=3, nz=2)
    elif k < 6:
        g.update(t=0.02 * ro, nr=8)
    elif k < 9:
        g.update(t=0.9 * ro, nt=12, nz=6)
    return g


def vol_closed_form(g, h=None):
    """element values and total of the theorems (independent of the model): r_i = ro - t + t i/(nr-1);
    1D pi (r_{i+1}^2 - r_i^2) h; 2D 1/2 (r_{i+1}^2 - r_i^2) sin(2 pi/nt) h, order (i, j); 3D the 2D value times
    1/(nz-1), order (i, j, k); totals pi (ro^2 - (ro-t)^2) h and (nt/2) sin(2 pi/nt) (ro^2 - (ro-t)^2) h"""
    h = g["h"] if h is None else h
    ro, t, nr, nt, nz = g["ro"], g["t"], g["nr"], g["nt"], g["nz"]
    r = [ro - t + t * i / (nr - 1) for i in range(nr)]
    ring = [(r[i + 1] - r[i]) * (r[i + 1] + r[i]) for i in range(nr - 1)]
    wall = t * (2.0 * ro - t)                       # ro^2 - (ro - t)^2
    if g["dim"] == 1:
        return np.array([math.pi * x * h for x in ring]), math.pi * wall * h
    s = math.sin(2.0 * math.pi / nt)
    if g["dim"] == 2:
        return np.array([0.5 * x * s * h for x in ring for _ in range(nt)]), nt / 2.0 * s * wall * h
    return (np.array([0.5 * x * s * h / (nz - 1) for x in ring for _ in range(nt) for _ in range(nz - 1)]),
            nt / 2.0 * s * wall * h)


def pred_tube_volume(p):
    """on the real values alone: count, every volume finite and > 0, every element and the total equal to the
    closed forms, volumes linear in the tube height"""
    g = p["geom"]
    try:
        v = real_volumes(g)
        vc = real_volumes(g, g["h"] * p["c"])
    except Exception as e:
        return ["Tube.element_volumes raised %s: %s" % (type(e).__name__, e)]
    what = "%dD tube ro=%r t=%r h=%r nr=%d nt=%d nz=%d" % (g["dim"], g["ro"], g["t"], g["h"], g["nr"], g["nt"], g["nz"])
    bad = []
    if v.size != nelem_of(g):
        return ["%s: %d element volumes for %d elements" % (what, v.size, nelem_of(g))]
    if not (np.all(np.isfinite(v)) and np.all(v > 0.0)):
        i = int(np.argmin(np.where(np.isfinite(v), v, -np.inf)))
        bad.append("%s: element volume %d is %r, not > 0" % (what, i, float(v[i])))
    elem, total = vol_closed_form(g)
    if not common.close(float(np.sum(v)), float(total), rel=REL_VOL, abs_=0.0):
        bad.append("%s: total element volume %r, closed form %s = %r (ratio %.12f)" % (
            what, float(np.sum(v)), "pi (ro^2-(ro-t)^2) h" if g["dim"] == 1 else "(nt/2) sin(2pi/nt) (ro^2-(ro-t)^2) h",
            float(total), float(np.sum(v)) / total))
    d = first_diff(v, elem, REL_VOL_ELEM)
    if d:
        bad.append("%s: element volume differs from %s: %s" % (
            what, "pi (r[i+1]^2-r[i]^2) h" if g["dim"] == 1 else "1/2 (r[i+1]^2-r[i]^2) sin(2pi/nt) h [/(nz-1)]", d))
    d = first_diff(vc, v * p["c"], REL_VOL)
    if d:
        bad.append("%s: volumes at height %g h are not %g times the volumes at h: %s" % (what, p["c"], p["c"], d))
    return bad


PREDS["tube_volume"] = pred_tube_volume


def volume_check(ctx, rng):
    """-> (jobs, model/code disagreements [(job, text)], predicate failures [(job, [text])])"""
    n = 40 if ctx.quick() else 400
    jobs = [dict(pred="tube_volume", signature="c05:volume", geom=gen_vol_geom(rng, k),
                 c=float([0.5, 2.0, 3.7, rng.uniform(0.1, 9.0)][k % 4])) for k in range(n)]
    drv = common.LeanDriver(["SrModel.Volume"])
    answers = drv.ask([vol_line(j["geom"]) for j in jobs])
    mism, fails = [], []
    for k, (j, ans) in enumerate(zip(jobs, answers)):
        g = j["geom"]
        try:
            real = real_volumes(g)
            d = "model answers bad-op" if ans == "bad-op" else first_diff(real, unbits(ans), REL_VOL)
        except Exception as e:
            real, d = np.array([]), ""          # reported by the predicate below
        ctx.case(("vol", k), nontrivial=real.size > 1, tag="volume/%dD" % g["dim"],
                 sample={"geom": g, "real_first": float(real[0]) if real.size else None,
                         "model_first": float(unbits(ans)[0]) if ans != "bad-op" and real.size else None} if k == 2 else None)
        if d:
            mism.append((j, "Tube.element_volumes vs model (%dD nr=%d nt=%d nz=%d): %s" % (g["dim"], g["nr"], g["nt"], g["nz"], d)))
        bad = pred_tube_volume(j)
        ctx.case(("volpred", k), nontrivial=True, tag="meta/tube_volume/%dD" % g["dim"])
        if bad:
            fails.append((j, bad))
    return jobs, mism, fails


def volume_replay(p):
    """re-run one volume case: real values, model values, closed forms"""
    g = p["geom"]
    print("tube:", g, "height factor:", p.get("c"))
    bad = list(pred_tube_volume(p))
    try:
        real = real_volumes(g)
        ans = common.LeanDriver(["SrModel.Volume"]).ask([vol_line(g)])[0]
        elem, total = vol_closed_form(g)
        print("  real volumes (first 4):", real[:4].tolist(), "total", float(np.sum(real)))
        print("  closed form  (first 4):", elem[:4].tolist(), "total", float(total))
        if ans != "bad-op":
            print("  model volumes (first 4):", unbits(ans)[:4].tolist(), "total", float(np.sum(unbits(ans))))
        d = "model answers bad-op" if ans == "bad-op" else first_diff(real, unbits(ans), REL_VOL)
        if d:
            bad.append("Tube.element_volumes vs SrModel.Volume: " + d)
    except common.Infra:
        raise
    except Exception as e:
        print("  real code raised %s: %s" % (type(e).__name__, e))
    return bad


def run(ctx):
    ctx.rule = ("correspondence: receivers with panel shapes from %s, 1D/2D/3D tubes with nr,nt<=3, 1-3 quadrature points, "
                "time axes all-zero (1-3 steps) / increasing from 0 / offset, service times {0,1,50,1e3,1e4,1e5}, per point a random "
                "rotation of principal values drawn from {generic, tensile, cut-off, near cut-off, compressive}, temperatures in "
                "[300,1360], both SiC variants, cut-off on/off, reduced orientation grids (3..13) plus default grids; a tube case is "
                "non-trivial when some element log-reliability is < 0.  metamorphic: see tags meta/<predicate>/<model>.  "
                "element volumes (tags volume/<dim>, meta/tube_volume/<dim>): 40 (quick) / 400 (thorough) tubes, dim cycling 1D/2D/3D, "
                "nr 2..8, nt 3..12, nz 2..6, ro in [2,40], t in [0.05,0.6] ro, h in [0.5,60], the first nine on the boundaries "
                "nr=2,nt=3,nz=2 / t=0.02 ro / t=0.9 ro; height factors {0.5,2,3.7,random}; non-trivial when the tube has more than "
                "one element" % PANEL_SHAPES)
    ctx.trusted = ["Lean 4 kernel + Mathlib (propext, Classical.choice, Quot.sound)",
                   "harness/c05.py (recorders around calculate_element_log_reliability and numpy.linalg.eigvalsh)",
                   "numpy.linalg.eigvalsh returns the sorted eigenvalues (a function of the similarity class): hypothesis of frame_indifferent",
                   "IEEE rounding between the Float and the real instance of the model; exp underflow"]
    ctx.assumptions = ["material look-ups (interp1d of the XML tables) are inputs of the model",
                       "the uniaxial law of WNTSA and of the Batdorf models along the non-polar axes holds to quadrature accuracy only (asserted within 5 %)"]
    thm_ok = common.lean_stage(ctx, [("SrProps.C05", "SrProps/C05.lean", "SrProps.C05")])
    drv = common.LeanDriver(["SrModel.Ceramic"])
    rng = np.random.default_rng(ctx.rng.getrandbits(63))

    gbad = grid_check(drv, ctx)
    ctx.obligation("correspondence: orientation grids of the model objects == mkGrid (1e-15)", not gbad, "; ".join(gbad[:3]))

    cases, mism, crashed = correspondence(ctx, drv, rng)
    ctx.obligation("correspondence: calculate_element_log_reliability / tube_log_reliability / determine_reliability == model (rel 1e-9), "
                   "tensor assembly (1e-13)", not mism and not crashed,
                   "%d of %d receivers disagree, %d raised; first: %s" % (len(mism), len(cases), len(crashed),
                                                                          (list(mism.values())[:1] or crashed[:1])))
    jobs, fails = metamorphic(ctx, rng)
    ctx.obligation("property predicates on real executions (rotation, compressive, scale, time, volume, uniaxial, power law, aggregation, range)",
                   not fails, "also uniaxial (polar axis exact, coordinate axes 5 %%) and repeated principal values; %d of %d fail; first: %s" % (len(fails), len(jobs), fails[0][1][:1] if fails else ""))
    vjobs, vmism, vfails = volume_check(ctx, np.random.default_rng(ctx.rng.getrandbits(63)))
    ctx.obligation("correspondence: Tube.element_volumes (1D/2D/3D, flattening order) == SrModel.Volume (rel 1e-12)", not vmism,
                   "%d of %d tubes disagree; first: %s" % (len(vmism), len(vjobs), vmism[0][1] if vmism else ""))
    ctx.obligation("property predicate on the real element volumes: count, every volume > 0, elements (1e-11) and total (1e-12) equal "
                   "to the closed forms of volume1d_total / volume2d_closed_form / volume2d_total / volume3d_total, linear in h (1e-12)",
                   not vfails, "%d of %d fail; first: %s" % (len(vfails), len(vjobs), vfails[0][1][:1] if vfails else ""))
    ctx.extra["traces_validated_against_impl"] = ctx.evals
    with warnings.catch_warnings():
        warnings.simplefilter("ignore")
        ctx.extra["uniaxial_ratio_logR_over_weibull_by_axis"] = {
            name: uniaxial_ratios(dict(model=name, variant="base", cares=True, sigma=100.0, T=1000.0)) for name, _, _ in MODELS}
    ctx.notes.append("np.min over time in determine_reliability is not observable: tube_log_reliability returns the same sum for every time row")

    # ---- outcomes ----
    if fails:
        # one violation per predicate kind, smallest input first
        seen = set()
        for j, bad in sorted(fails, key=lambda x: size_of(x[0])):
            sig = j.get("signature", "c05:" + j["pred"])
            if sig in seen:
                continue
            seen.add(sig)
            ctx.violation("real srlife.damage: " + bad[0], dict(j, failures=bad), signature=sig)
    # element volumes: a real failing input first; a bare model/code disagreement names the correspondence
    if vfails:
        j, bad = sorted(vfails, key=lambda x: size_of(x[0]))[0]
        ctx.violation("real srlife.receiver.Tube.element_volumes: " + bad[0],
                      dict(j, failures=bad, n_failing=len(vfails)), signature="c05:volume")
    elif vmism:
        j, why = sorted(vmism, key=lambda x: size_of(x[0]))[0]
        ctx.violation("model and code disagree on the element volumes (no volume predicate fails): " + why,
                      dict(j, failures=[why], n_disagreeing=len(vmism), correspondence="harness/c05.py vs SrModel.Volume"),
                      no_input=True)
    # exceptions of the real code in the correspondence runs are failing inputs too
    if crashed and not fails:
        ci, why = crashed[0]
        c = cases[ci]
        ctx.violation("real srlife.damage raised on a valid receiver: " + why, dict(c, pred="correspondence", failures=[why]),
                      signature="c05:raise")
    elif mism and not fails:
        ci = sorted(mism, key=lambda k: size_of(cases[k]))[0]
        c = cases[ci]
        ctx.violation("model and code disagree (no metamorphic predicate fails): " + mism[ci][0],
                      dict(c, pred="correspondence", failures=mism[ci], n_disagreeing=len(mism),
                           correspondence="harness/c05.py vs SrModel.Ceramic"), no_input=True)
    if not thm_ok and not fails and not mism and not crashed and not vfails and not vmism:
        ctx.violation("a C05 theorem no longer checks", {"lean": ctx.extra.get("lean_errors"), "theorems": ctx.extra.get("broken_theorems")},
                      no_input=True)
    return "proof"


def replay(obj):
    p = dict(obj["replay"])
    if "pred" not in p:
        print("replay names no input:", p)
        return 1
    with warnings.catch_warnings():
        warnings.simplefilter("ignore")
        if p["pred"] == "tube_volume":
            bad = volume_replay(p)
        else:
            bad = corr_replay(p) if p["pred"] == "correspondence" else PREDS[p["pred"]](p)
    print("predicate:", p["pred"], "model:", p.get("model"), "variant:", p.get("variant"))
    for b in bad:
        print("  FAILS:", b)
    print("property holds on this input" if not bad else "property violated on this input")
    return 1 if bad else 0


if __name__ == "__main__":
    sys.exit(common.main("C05", run, replay))
